(* C15 - a crash at any point leaves the store valid, and re-running recovers.

   Model: Model/AddSteps.v (step machine; world = final-name files oid |-> (bytes, protected?),
   temp files, valid state rows, ghost "reflink probe pending").  A crash keeps the file system and
   erases the ghost ([crash]).  [crash_inv] = no mismatching object is write-protected or vouched
   for by a state row, and every well-named directory object present has all the files it lists
   present and well named.  [inv] (Proofs/AddStepsProofs.v) is the inductive strengthening
   (valid rows are truthful; nothing depends on a pending probe file).

   Deviation from DESIGN section 6 (stated): C15_recover holds for the re-run path that goes through
   the existence query (transfer); for the re-run path through add(check_exists=True) (index.save)
   the full statement is REFUTED by the faithful model (C15_recover_check_exists_refuted, the known
   finding "C15:blessed-mismatch:probe-leftover-then-add-check-exists") and is proved for every
   crash point at which no reflink probe is pending; with EFFECTIVE VERIFICATION (per-call
   verify=True: HashFileDB.add's pre-add check re-hashes every requested name and drops an
   unprotected mismatch before the existence filter) the same re-run recovers at EVERY crash point
   (C15_recover_verify) - which is why the pre-add check must be gated on the effective flag.
   Comparison "modulo temp names" = equality of
   the final-name objects (bytes and protection); temp files and state rows (a cache) are ignored.
   The recover theorems assume a collision-free digest (H_inj) - satisfiable, see z_inj.
   Partial by nature: durability (fsync, power loss, torn rename) is an environment hypothesis -
   a step is atomic and a crash loses no completed step.  Generator theorems exist for every
   scenario program the harness checks against real traces: stage+transfer / upload (directory object
   from memory), store->store transfer (directory object copied local->local), ONE transfer() over
   several directories sharing files (files go up with the FIRST directory listing them), index.save
   without and with effective verification (per-call flag or the store's default), transfers with
   per-call verification (one directory, or several sharing files) and hardlink transfers (a link =
   the atomic composition [CreateTmp; WriteTmp; Rename] of a virtual temp name).
   The ONE scenario without a generator theorem is the corrupt SOURCE object (verify=True transfer
   of a partial object): there the copy renames a mismatching content into place, which is outside the
   machine's discipline ([step_ok] of Rename demands a well-named content), so [valid_trace] is false
   by design and C15_prefix does not apply; what is missing is a relaxed discipline
   "Rename of any content onto an ABSENT name" (safe: prot = false, the row is dropped, no present
   directory can list an absent name) together with a weakened [ok_on]; until then that scenario is
   checked by [crash_inv_b] (sound: C15_crash_inv_b_sound) at every recorded prefix and by the oracle. *)
From Coq Require Import NArith List Bool.
From DvcData Require Import Base.Val Model.AddSteps Proofs.AddStepsProofs Proofs.AddStepsProgs Proofs.AddStepsRecover Proofs.AddStepsVerify Proofs.AddStepsRecoverVerify Proofs.AddStepsMulti Proofs.AddStepsMultiRecover Proofs.AddStepsVMulti Proofs.AddStepsVTransfer Proofs.AddStepsExamples Gen.DbAdd Proofs.AddStepsTie.
Import ListNotations.
Open Scope N_scope.

(* every trace accepted by the machine's boolean [valid_trace] - in particular every recorded event
   stream of the real code, which the harness checks with it - is crash-safe at every prefix *)
Theorem C15_prefix :
  forall (bytes : Type) (H : bytes -> oid) (kids : bytes -> list oid) (empty : bytes),
    kids empty = [] ->
    forall (tr : list (astep_ bytes)) (w : world bytes),
      inv bytes H kids w -> valid_trace bytes H kids empty tr w = true ->
      forall n, crash_inv bytes H kids (crash bytes (run bytes empty (firstn n tr) w)).
Proof. exact valid_prefix_crash_inv. Qed.
Print Assumptions C15_prefix.

(* the boolean the harness evaluates on real audited stores implies the property *)
Theorem C15_crash_inv_b_sound :
  forall (bytes : Type) (H : bytes -> oid) (kids : bytes -> list oid) (w : world bytes),
    crash_inv_b bytes H kids w = true -> crash_inv bytes H kids w.
Proof. exact crash_inv_b_sound. Qed.
Print Assumptions C15_crash_inv_b_sound.

(* stage + transfer (existence query, missing files, directory object last): crash-safe at every
   prefix from ANY store satisfying the invariant, whatever a previous crash left behind, for every
   query order, every temp numbering and every shape of torn copy *)
Theorem C15_prefix_transfer :
  forall (bytes : Type) (H : bytes -> oid) (kids : bytes -> list oid) (empty : bytes)
         (part : bytes -> bytes),
    kids empty = [] ->
    forall t qs files d w n,
      inv bytes H kids w -> w_pend w = None ->
      files_ok bytes H files -> dir_ok bytes H kids files d -> requested bytes files d qs ->
      crash_inv bytes H kids
        (crash bytes (run bytes empty (firstn n (transfer_prog bytes H empty part true t qs files d w)) w)).
Proof. exact transfer_prefix_crash_inv. Qed.
Print Assumptions C15_prefix_transfer.

(* index.save (one add of the files, then one add per directory object) from a sane store *)
Theorem C15_prefix_save :
  forall (bytes : Type) (H : bytes -> oid) (kids : bytes -> list oid) (empty : bytes)
         (part : bytes -> bytes),
    kids empty = [] ->
    forall t files dirs w n,
      inv bytes H kids w -> w_pend w = None -> all_ok bytes H w ->
      files_ok bytes H files -> (forall d, In d dirs -> dir_ok bytes H kids files d) ->
      crash_inv bytes H kids
        (crash bytes (run bytes empty (firstn n (save_prog bytes empty part t files dirs w)) w)).
Proof. exact save_prefix_crash_inv. Qed.
Print Assumptions C15_prefix_save.

(* re-running a transfer after a crash at ANY point: the re-run is itself crash-safe at every prefix,
   ends in the same store as the uninterrupted run, every requested object present, well named,
   protected *)
Theorem C15_recover :
  forall (bytes : Type) (H : bytes -> oid) (kids : bytes -> list oid) (empty : bytes)
         (part : bytes -> bytes),
    kids empty = [] ->
    (forall b b', base (H b) = base (H b') -> b = b') ->
    forall t t' qs qs' files d w0 n,
      inv bytes H kids w0 -> w_pend w0 = None ->
      files_ok bytes H files -> dir_ok bytes H kids files d ->
      requested bytes files d qs -> requested bytes files d qs' ->
      let p0 := transfer_prog bytes H empty part true t qs files d w0 in
      let wc := crash bytes (run bytes empty (firstn n p0) w0) in
      let p1 := transfer_prog bytes H empty part true t' qs' files d wc in
      valid_trace bytes H kids empty p1 wc = true /\
      (forall m, crash_inv bytes H kids (crash bytes (run bytes empty (firstn m p1) wc))) /\
      store_eq bytes (run bytes empty p1 wc) (run bytes empty p0 w0) /\
      (forall o, In o qs -> good bytes H (run bytes empty p1 wc) o).
Proof. exact transfer_recover. Qed.
Print Assumptions C15_recover.

(* the same statement for the re-run through add(check_exists=True) is false: an index.save of one
   file into an empty store, killed between the reflink probe's create and its clean-up; the crashed
   store is fine, the re-run protects and vouches for the empty leftover (witness by vm_compute) *)
Theorem C15_recover_check_exists_refuted :
  exists (files : list (oid * oid)) (w0 : world oid) (n : nat),
    inv oid xH (xK []) w0 /\ w_pend w0 = None /\ all_ok oid xH w0 /\ files_ok oid xH files /\
    let p := save_prog oid xE (fun b => b) 0 files [] in
    let wc := crash oid (run oid xE (firstn n (p w0)) w0) in
    crash_inv oid xH (xK []) wc /\
    ~ crash_inv oid xH (xK []) (run oid xE (p wc) wc) /\
    ~ store_eq oid (run oid xE (p wc) wc) (run oid xE (p w0) w0).
Proof. exact recover_check_exists_refuted. Qed.
Print Assumptions C15_recover_check_exists_refuted.

(* ... and true at every other crash point *)
Theorem C15_recover_check_exists_restricted :
  forall (bytes : Type) (H : bytes -> oid) (kids : bytes -> list oid) (empty : bytes)
         (part : bytes -> bytes),
    kids empty = [] ->
    (forall b b', base (H b) = base (H b') -> b = b') ->
    forall t t' files dirs w0 n,
      inv bytes H kids w0 -> w_pend w0 = None -> all_ok bytes H w0 ->
      files_ok bytes H files -> (forall d, In d dirs -> dir_ok bytes H kids files d) ->
      let p0 := save_prog bytes empty part t files dirs w0 in
      w_pend (run bytes empty (firstn n p0) w0) = None ->
      let wc := crash bytes (run bytes empty (firstn n p0) w0) in
      let p1 := save_prog bytes empty part t' files dirs wc in
      valid_trace bytes H kids empty p1 wc = true /\
      (forall m, crash_inv bytes H kids (crash bytes (run bytes empty (firstn m p1) wc))) /\
      store_eq bytes (run bytes empty p1 wc) (run bytes empty p0 w0) /\
      (forall o, save_req bytes files dirs o -> good bytes H (run bytes empty p1 wc) o).
Proof. exact save_recover_restricted. Qed.
Print Assumptions C15_recover_check_exists_restricted.

(* with EFFECTIVE verification of the files - the per-call flag vf (save(..., verify=True)) or the
   store's default vd (odb.verify=True; then the directory objects are verified too) - index.save is
   crash-safe at every prefix ... *)
Theorem C15_prefix_save_verify :
  forall (bytes : Type) (H : bytes -> oid) (kids : bytes -> list oid) (empty : bytes)
         (part : bytes -> bytes),
    kids empty = [] ->
    forall vf vd t files dirs w n,
      vf || vd = true ->
      inv bytes H kids w -> w_pend w = None -> all_ok bytes H w ->
      files_ok bytes H files -> (forall d, In d dirs -> dir_ok bytes H kids files d) ->
      crash_inv bytes H kids
        (crash bytes (run bytes empty (firstn n (save_gen bytes H empty part vf vd t files dirs w)) w)).
Proof. exact save_everify_prefix_crash_inv. Qed.
Print Assumptions C15_prefix_save_verify.

(* ... and its re-run through add(check_exists=True) recovers at EVERY crash point n, the reflink-probe
   window included (no side condition on n): the positive counterpart of the refuted theorem *)
Theorem C15_recover_verify :
  forall (bytes : Type) (H : bytes -> oid) (kids : bytes -> list oid) (empty : bytes)
         (part : bytes -> bytes),
    kids empty = [] ->
    (forall b b', base (H b) = base (H b') -> b = b') ->
    forall vf vd t t' files dirs w0 n,
      vf || vd = true ->
      inv bytes H kids w0 -> w_pend w0 = None -> all_ok bytes H w0 ->
      files_ok bytes H files -> (forall d, In d dirs -> dir_ok bytes H kids files d) ->
      let p0 := save_gen bytes H empty part vf vd t files dirs w0 in
      let wc := crash bytes (run bytes empty (firstn n p0) w0) in
      let p1 := save_gen bytes H empty part vf vd t' files dirs wc in
      valid_trace bytes H kids empty p1 wc = true /\
      (forall m, crash_inv bytes H kids (crash bytes (run bytes empty (firstn m p1) wc))) /\
      store_eq bytes (run bytes empty p1 wc) (run bytes empty p0 w0) /\
      (forall o, save_req bytes files dirs o -> good bytes H (run bytes empty p1 wc) o).
Proof. exact save_everify_recover. Qed.
Print Assumptions C15_recover_verify.

(* store -> store transfer: the directory object is copied local->local (reflink probe, temp copy,
   rename) after its files *)
Theorem C15_prefix_store_transfer :
  forall (bytes : Type) (H : bytes -> oid) (kids : bytes -> list oid) (empty : bytes)
         (part : bytes -> bytes),
    kids empty = [] ->
    forall t qs files d w n,
      inv bytes H kids w -> w_pend w = None ->
      files_ok bytes H files -> dir_ok bytes H kids files d -> requested bytes files d qs ->
      crash_inv bytes H kids
        (crash bytes (run bytes empty (firstn n (transfer_prog bytes H empty part false t qs files d w)) w)).
Proof. exact store_transfer_prefix_crash_inv. Qed.
Print Assumptions C15_prefix_store_transfer.

Theorem C15_recover_store_transfer :
  forall (bytes : Type) (H : bytes -> oid) (kids : bytes -> list oid) (empty : bytes)
         (part : bytes -> bytes),
    kids empty = [] ->
    (forall b b', base (H b) = base (H b') -> b = b') ->
    forall mem t t' qs qs' files d w0 n,
      inv bytes H kids w0 -> w_pend w0 = None ->
      files_ok bytes H files -> dir_ok bytes H kids files d ->
      requested bytes files d qs -> requested bytes files d qs' ->
      let p0 := transfer_prog bytes H empty part mem t qs files d w0 in
      let wc := crash bytes (run bytes empty (firstn n p0) w0) in
      let p1 := transfer_prog bytes H empty part mem t' qs' files d wc in
      valid_trace bytes H kids empty p1 wc = true /\
      (forall m, crash_inv bytes H kids (crash bytes (run bytes empty (firstn m p1) wc))) /\
      store_eq bytes (run bytes empty p1 wc) (run bytes empty p0 w0) /\
      (forall o, In o qs -> good bytes H (run bytes empty p1 wc) o).
Proof. exact transfer_recover_any. Qed.
Print Assumptions C15_recover_store_transfer.

(* ONE transfer() over several directories that share files: for every directory order [ds], every file
   order [forder], every query order [qs], the ownership computed as _do_transfer does (a shared file
   goes up with the FIRST new directory listing it, before that directory's object), the directory
   objects from memory or copied (mem) - crash-safe at every prefix from any store satisfying inv *)
Theorem C15_prefix_mtransfer :
  forall (bytes : Type) (H : bytes -> oid) (kids : bytes -> list oid) (empty : bytes)
         (part : bytes -> bytes),
    kids empty = [] ->
    forall mem t qs ds forder w n,
      inv bytes H kids w -> w_pend w = None ->
      files_ok bytes H forder -> (forall d, In d ds -> dir_ok bytes H kids forder d) ->
      NoDup (map fst ds) -> mrequested bytes forder ds qs ->
      crash_inv bytes H kids
        (crash bytes (run bytes empty (firstn n (mtransfer_prog bytes H kids empty part false mem t qs ds forder w)) w)).
Proof. exact mtransfer_prefix_crash_inv. Qed.
Print Assumptions C15_prefix_mtransfer.

(* ... and the re-run after a crash at ANY point - iterating directories and files in any other order -
   converges to the uninterrupted result *)
Theorem C15_recover_mtransfer :
  forall (bytes : Type) (H : bytes -> oid) (kids : bytes -> list oid) (empty : bytes)
         (part : bytes -> bytes),
    kids empty = [] ->
    (forall b b', base (H b) = base (H b') -> b = b') ->
    forall mem t t' qs qs' ds ds' forder forder' w0 n,
      inv bytes H kids w0 -> w_pend w0 = None ->
      files_ok bytes H forder -> (forall d, In d ds -> dir_ok bytes H kids forder d) ->
      NoDup (map fst ds) -> mrequested bytes forder ds qs ->
      files_ok bytes H forder' -> (forall d, In d ds' -> dir_ok bytes H kids forder' d) ->
      NoDup (map fst ds') -> mrequested bytes forder' ds' qs' ->
      (forall o, In o qs <-> In o qs') ->
      let p0 := mtransfer_prog bytes H kids empty part false mem t qs ds forder w0 in
      let wc := crash bytes (run bytes empty (firstn n p0) w0) in
      let p1 := mtransfer_prog bytes H kids empty part false mem t' qs' ds' forder' wc in
      valid_trace bytes H kids empty p1 wc = true /\
      (forall m, crash_inv bytes H kids (crash bytes (run bytes empty (firstn m p1) wc))) /\
      store_eq bytes (run bytes empty p1 wc) (run bytes empty p0 w0) /\
      (forall o, In o qs -> good bytes H (run bytes empty p1 wc) o).
Proof. exact mtransfer_recover. Qed.
Print Assumptions C15_recover_mtransfer.

(* ---- the tie to the source: the add programs all generator theorems above are built from ARE
   HashFileDB.add as the translator reads it from /repo on every run (Gen/DbAdd.v).  [g_add]
   interprets the generated decisions (effective verify flag, guard / iteration / swallowed exceptions
   of the pre-add check, what super().add is given, body and handlers of the post loop, the one state
   transaction); at every prefix - every crash point - it yields the world of the hand-written
   program. *)
Theorem C15_add_model_is_source_add :
  forall (bytes : Type) (H : bytes -> oid) (empty : bytes) (part : bytes -> bytes)
         (percall : option bool) (store chk : bool) (t : N) (its : items bytes) (w : world bytes),
    prefix_states bytes empty (g_add bytes H empty percall store chk (cp_local bytes part t its) (map fst its) w) w
    = prefix_states bytes empty (add_gen bytes H empty part (eff_verify percall store) chk t its w) w.
Proof. exact add_gen_is_source_add. Qed.
Print Assumptions C15_add_model_is_source_add.

(* the same for a directory object added from memory by add_update_tree (no per-call flag, the
   signature's default check_exists) *)
Theorem C15_mem_add_model_is_source_add :
  forall (bytes : Type) (H : bytes -> oid) (empty : bytes)
         (store : bool) (t : N) (it : oid * bytes) (w : world bytes),
    prefix_states bytes empty
      (g_add bytes H empty tree_add_percall_verify store tree_add_check_exists (cp_mem bytes t it) [fst it] w) w
    = prefix_states bytes empty (mem_add_gen bytes H empty (eff_verify tree_add_percall_verify store) t it w) w.
Proof. exact mem_add_gen_is_source_add. Qed.
Print Assumptions C15_mem_add_model_is_source_add.

(* what the generated text says today (closed by computation on Gen/DbAdd.v) *)
Theorem C15_source_add_facts :
  DEFAULT_VERIFY = false /\ add_default_check_exists = true /\ add_default_hardlink = false /\
  (forall v, pre_runs v = v) /\ pre_over = OidsGiven /\
  post_body true = [PCheck true; PProtect] /\ post_body false = [PProtect] /\
  post_handler ExcObjectFormat = Some HReport /\ post_handler ExcFileNotFound = Some HPass /\
  copy_reports = true /\ (forall b, copy_hardlink b = b) /\ (forall b, copy_check_exists b = b) /\
  tree_add_hardlink = false /\ migrate_hardlink = true /\ migrate_into = Dest /\ migrate_from_fs = Src /\
  prepare_hash_name = Dest /\ prepare_state = Dest /\ prepare_lists = Src.
Proof. exact source_add_facts. Qed.
Print Assumptions C15_source_add_facts.

(* ---- transfers with per-call verification: transfer(..., verify=True) - pre-add check, copies,
   per-oid check + protect, state; the directory object from memory or copied (mem) ---- *)
Theorem C15_prefix_vtransfer :
  forall (bytes : Type) (H : bytes -> oid) (kids : bytes -> list oid) (empty : bytes)
         (part : bytes -> bytes),
    kids empty = [] ->
    forall mem t qs files d w n,
      inv bytes H kids w -> w_pend w = None ->
      files_ok bytes H files -> dir_ok bytes H kids files d -> requested bytes files d qs ->
      crash_inv bytes H kids
        (crash bytes (run bytes empty (firstn n (vtransfer_prog bytes H empty part mem t qs files d w)) w)).
Proof. exact vtransfer_prefix_crash_inv. Qed.
Print Assumptions C15_prefix_vtransfer.

Theorem C15_recover_vtransfer :
  forall (bytes : Type) (H : bytes -> oid) (kids : bytes -> list oid) (empty : bytes)
         (part : bytes -> bytes),
    kids empty = [] ->
    (forall b b', base (H b) = base (H b') -> b = b') ->
    forall mem t t' qs qs' files d w0 n,
      inv bytes H kids w0 -> w_pend w0 = None ->
      files_ok bytes H files -> dir_ok bytes H kids files d ->
      requested bytes files d qs -> requested bytes files d qs' ->
      let p0 := vtransfer_prog bytes H empty part mem t qs files d w0 in
      let wc := crash bytes (run bytes empty (firstn n p0) w0) in
      let p1 := vtransfer_prog bytes H empty part mem t' qs' files d wc in
      valid_trace bytes H kids empty p1 wc = true /\
      (forall m, crash_inv bytes H kids (crash bytes (run bytes empty (firstn m p1) wc))) /\
      store_eq bytes (run bytes empty p1 wc) (run bytes empty p0 w0) /\
      (forall o, In o qs -> good bytes H (run bytes empty p1 wc) o).
Proof. exact vtransfer_recover. Qed.
Print Assumptions C15_recover_vtransfer.

(* one VERIFIED transfer() over several directories sharing files (mt_loop with v = true) *)
Theorem C15_prefix_mtransfer_verify :
  forall (bytes : Type) (H : bytes -> oid) (kids : bytes -> list oid) (empty : bytes)
         (part : bytes -> bytes),
    kids empty = [] ->
    forall mem t qs ds forder w n,
      inv bytes H kids w -> w_pend w = None ->
      files_ok bytes H forder -> (forall d, In d ds -> dir_ok bytes H kids forder d) ->
      NoDup (map fst ds) -> mrequested bytes forder ds qs ->
      crash_inv bytes H kids
        (crash bytes (run bytes empty (firstn n (mtransfer_prog bytes H kids empty part true mem t qs ds forder w)) w)).
Proof. exact mtransfer_v_prefix_crash_inv. Qed.
Print Assumptions C15_prefix_mtransfer_verify.

Theorem C15_recover_mtransfer_verify :
  forall (bytes : Type) (H : bytes -> oid) (kids : bytes -> list oid) (empty : bytes)
         (part : bytes -> bytes),
    kids empty = [] ->
    (forall b b', base (H b) = base (H b') -> b = b') ->
    forall mem t t' qs qs' ds ds' forder forder' w0 n,
      inv bytes H kids w0 -> w_pend w0 = None ->
      files_ok bytes H forder -> (forall d, In d ds -> dir_ok bytes H kids forder d) ->
      NoDup (map fst ds) -> mrequested bytes forder ds qs ->
      files_ok bytes H forder' -> (forall d, In d ds' -> dir_ok bytes H kids forder' d) ->
      NoDup (map fst ds') -> mrequested bytes forder' ds' qs' ->
      (forall o, In o qs <-> In o qs') ->
      let p0 := mtransfer_prog bytes H kids empty part true mem t qs ds forder w0 in
      let wc := crash bytes (run bytes empty (firstn n p0) w0) in
      let p1 := mtransfer_prog bytes H kids empty part true mem t' qs' ds' forder' wc in
      valid_trace bytes H kids empty p1 wc = true /\
      (forall m, crash_inv bytes H kids (crash bytes (run bytes empty (firstn m p1) wc))) /\
      store_eq bytes (run bytes empty p1 wc) (run bytes empty p0 w0) /\
      (forall o, In o qs -> good bytes H (run bytes empty p1 wc) o).
Proof. exact mtransfer_v_recover. Qed.
Print Assumptions C15_recover_mtransfer_verify.

(* transfer(..., hardlink=True): the workspace files are linked into the store (reflink attempt for the
   first one only); the existence query comes first, so an object linked before a crash is never handed
   to add(check_exists=False) again *)
Theorem C15_prefix_hardlink_transfer :
  forall (bytes : Type) (H : bytes -> oid) (kids : bytes -> list oid) (empty : bytes)
         (part : bytes -> bytes),
    kids empty = [] ->
    forall t qs files d w n,
      inv bytes H kids w -> w_pend w = None ->
      files_ok bytes H files -> dir_ok bytes H kids files d -> requested bytes files d qs ->
      crash_inv bytes H kids
        (crash bytes (run bytes empty (firstn n (ltransfer_prog bytes H empty part t qs files d w)) w)).
Proof. exact ltransfer_prefix_crash_inv. Qed.
Print Assumptions C15_prefix_hardlink_transfer.

Theorem C15_recover_hardlink_transfer :
  forall (bytes : Type) (H : bytes -> oid) (kids : bytes -> list oid) (empty : bytes)
         (part : bytes -> bytes),
    kids empty = [] ->
    (forall b b', base (H b) = base (H b') -> b = b') ->
    forall t t' qs qs' files d w0 n,
      inv bytes H kids w0 -> w_pend w0 = None ->
      files_ok bytes H files -> dir_ok bytes H kids files d ->
      requested bytes files d qs -> requested bytes files d qs' ->
      let p0 := ltransfer_prog bytes H empty part t qs files d w0 in
      let wc := crash bytes (run bytes empty (firstn n p0) w0) in
      let p1 := ltransfer_prog bytes H empty part t' qs' files d wc in
      valid_trace bytes H kids empty p1 wc = true /\
      (forall m, crash_inv bytes H kids (crash bytes (run bytes empty (firstn m p1) wc))) /\
      store_eq bytes (run bytes empty p1 wc) (run bytes empty p0 w0) /\
      (forall o, In o qs -> good bytes H (run bytes empty p1 wc) o).
Proof. exact ltransfer_recover. Qed.
Print Assumptions C15_recover_hardlink_transfer.
