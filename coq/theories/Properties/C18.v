(* C18 - Push and fetch through storage mappings move exactly the reachable objects.
   Only statements here.  Model: Model/PushFetch.v (StorageMapping.__getitem__, lazy directory
   entries, collect, push / fetch as one Model/Transfer.v [transfer] per remote group).
   Proofs: Proofs/PushFetchResolve.v, Proofs/PushFetchProofs.v (on top of the C04 / C11
   development Proofs/Transfer*.v), non-vacuity in Proofs/PushFetchExamples.v.

   Reading guide.  [getitem m k] is storage_map[k]; [collect m idx] the groups (remote, cache of
   the FIRST prefix resolving to that remote, requested ids) that collect(idxs, "remote") builds;
   [run_round e k m idx w] = collect + push (k = RPush) or fetch (RFetch) on the stores [w] under
   the oracles [e] (which uploads raise, per destination store and id; iteration orders);
   [gin e k w g] is the transfer input of group g.  [designated m idx r]: ids of the entries whose
   key the mapping sends to remote r; [reachable idx]: directory objects, the files they list,
   file entries.  All theorems are for arbitrary indexes, maps, stores and oracles.

   Hypotheses, and why they are there:
   * [wf (gin ..)] is C04's quantifier for each group: closed remote, flat listings, content
     addressing, closed request (C04_wf_meaning); x_wf shows it holds for a concrete system.
   * [indep k gs]: every group has a cache, destinations pairwise distinct, no source is a
     destination.  For push the destinations are the remotes (distinct by construction of
     collect), so this only says "a cache is not a remote".  For fetch it restricts to one cache
     per remote group (C18_fetch_exact_partial, kept); the general case - any number of remote
     groups delivering into one cache - is C18_fetch_exact / C18_checkout, which need only
     [seqok] (every group has a cache; no remote is a cache) and hypotheses on the INITIAL stores:
     content addressing across all stores, flat listings, closed caches, [req_closed] (a group
     requests a directory together with the files it lists); well-formedness of every transfer at
     its turn is derived (turns_wf), not assumed.
   * "the group's cache holds the group's request" (hypothesis 7 of C18_push): collect keeps one
     cache per remote (the first prefix's).  This is the exact complement of the two recorded
     findings (known_findings.json): it says that every remote group is served by ONE cache holding
     every object under the group's prefixes - which fails when two prefixes give one remote
     different caches (C18:designated-object-not-pushed:remote-group-served-by-several-caches) and
     when a directory's listing crosses a longer prefix that re-routes a listed file to another
     cache (C18:dir-object-withheld:directory-split-across-storage-prefixes).  With the
     precondition index.save establishes instead (each object in the cache designated for ITS
     key) the statement is false: C18_push_refuted, witness evaluated by vm_compute, the same
     input reproduces on the implementation (corpus case of harness/props/c18.py).
   * [p_err out = None]: push / fetch returned (no exception escaped).
   * Remote indexes.  The theorems are about remotes WITHOUT a tmp_dir (get_index =
     ObjectDBIndexNoop: [run_round]).  Remotes with a tmp_dir use a real persistent index, carried
     from group to group and round to round ([run_round_ix], Model/PushFetch.v); that run is tied to
     the implementation by the correspondence and judged by the oracle on every scenario that has
     such remotes, and it IS the index-free run wherever no group's remote has an index
     (C18_noindex_tie).  C18_push_indexed: a fault-free push over remotes with SOUND (e.g. empty)
     indexes is complete and leaves every index sound; C18_index_preserved is the per-transfer fact.
   * Hypotheses on the index and the map only: C18_push_map / C18_fetch_map / C18_checkout_map
     derive [wf], [indep]/[seqok], [req_closed], "the group's cache holds the request" and "the cache
     designated for a key is its group's cache" from [idx_ok] (directory entries carry the listing
     their object parses to), [single_cache] (one cache per remote group), [no_split] (a longer prefix
     does not re-route entries below a remote-bearing prefix to another CACHE - the complement of the
     split-directory finding, a little stronger), [placed] (index.save's placement), [caches_apart]
     and content addressing / closedness of the INITIAL stores.
   * Uploads are atomic in this model ([group_in] sets t_part := false of Model/Transfer.v: no
     truncated leftover, no Partial event - no_partial); C04 covers non-atomic uploads for a single
     transfer.  [wf] therefore also carries C04's trunc_unparsable, which for group_in reads
     "the empty byte string does not parse as a listing".

   C18_resolve is over the GENERATED __getitem__ (Gen/StorageMap.v, emitted on every run by
   translator/storagemap.py from index/index.py: the prefix test, the sort key and direction, the
   guarded per-role assignments, the break test and the returned StorageInfo come from the source;
   any other shape fails closed); the dense differential check of harness/props/c18.py validates
   the translation. *)
From Coq Require Import NArith List Bool.
From DvcData Require Import Base.Val Model.Transfer Gen.StorageMap Model.PushFetch Proofs.TransferBase Proofs.TransferStatus Proofs.TransferLoop Proofs.TransferProofs Proofs.PushFetchResolve Proofs.PushFetchProofs Proofs.PushFetchMap Proofs.PushFetchIndexed Proofs.PushFetchExamples Gen.FetchCall Proofs.FetchCallTie.
Import ListNotations.
Open Scope N_scope.

(* [matches p k] is "p is a prefix of k" *)
Theorem C18_matches_meaning : forall p k, matches p k = true <-> exists t, k = p ++ t.
Proof. exact matches_spec. Qed.
Print Assumptions C18_matches_meaning.

(* storage_map[k]: KeyError iff no prefix of k is in the map; otherwise every role (data, cache,
   remote), independently, is the one defined by the LONGEST prefix of k that defines it, and is
   absent iff no prefix defines it *)
Theorem C18_resolve : forall rho m k,
  (rho = si_data \/ rho = si_cache \/ rho = si_remote) -> NoDup (map fst m) ->
  (getitem m k = None <-> forall p s, In (p, s) m -> matches p k = false) /\
  (forall si, getitem m k = Some si ->
     (forall x, rho si = Some x <->
        exists p, (exists s, In (p, s) m /\ matches p k = true /\ rho s = Some x) /\
                  forall p' x', (exists s', In (p', s') m /\ matches p' k = true /\ rho s' = Some x') ->
                                (length p' <= length p)%nat) /\
     (rho si = None <-> forall p x, ~ exists s, In (p, s) m /\ matches p k = true /\ rho s = Some x)).
Proof. exact resolve_spec. Qed.
Print Assumptions C18_resolve.

(* collect: the group of remote r requests the object of every key designated to r, and a group
   requests nothing that is not reachable from the index *)
Theorem C18_collect : forall m idx,
  (forall r o, NoDup (map fst m) -> In o (designated m idx r) ->
     exists g, In g (collect m idx) /\ g_data g = r /\ In o (g_req g)) /\
  (forall g o, In g (collect m idx) -> In o (g_req g) -> In o (reachable idx)).
Proof.
  intros m idx. split.
  - intros r o Hn. now apply designated_in_group.
  - apply collect_reachable.
Qed.
Print Assumptions C18_collect.

(* push without faults: designated r <= contents r, and r gains only reachable objects *)
Theorem C18_push : forall e m idx w out,
  NoDup (map fst m) ->
  run_round e RPush m idx w = out -> p_err out = None ->
  indep RPush (collect m idx) ->
  (forall g, In g (collect m idx) -> wf (gin e RPush w g)) ->
  (forall s o, e_fails e s o = false) ->
  (forall g o, In g (collect m idx) -> In o (g_req g) -> has (sget w (gc g)) o = true) ->
  (forall g D b, In g (collect m idx) -> is_dir_oid D = true ->
                 lookup D (sget w (gc g)) = Some b -> e_parse e b <> None) ->
  forall r,
    (forall o, In o (designated m idx r) -> has (sget (p_w out) r) o = true) /\
    (forall o, has (sget (p_w out) r) o = true -> has (sget w r) o = true \/ In o (reachable idx)).
Proof. exact push_spec. Qed.
Print Assumptions C18_push.

(* the full statement - with index.save's placement as the only assumption on the caches - is
   refuted by the faithful model (recorded finding, see the header) *)
Theorem C18_push_refuted :
  ~ (forall e m idx w out,
       NoDup (map fst m) ->
       run_round e RPush m idx w = out -> p_err out = None ->
       indep RPush (collect m idx) ->
       (forall g, In g (collect m idx) -> wf (gin e RPush w g)) ->
       (forall s o, e_fails e s o = false) ->
       (forall k o c, In (k, o) (entries m idx) -> cache_of m k = Some c -> has (sget w c) o = true) ->
       forall r o, In o (designated m idx r) -> has (sget (p_w out) r) o = true).
Proof. exact push_refuted. Qed.
Print Assumptions C18_push_refuted.

(* whatever fails, in push or fetch: a destination keeps what it had, receives only ids its group
   requested, with the source's bytes; every other store is untouched *)
Theorem C18_moves_only_requested : forall e k m idx w out,
  run_round e k m idx w = out -> p_err out = None -> indep k (collect m idx) ->
  (forall g, In g (collect m idx) -> wf (gin e k w g)) ->
  (forall g o b, In g (collect m idx) -> lookup o (sget (p_w out) (gd k g)) = Some b ->
     lookup o (sget w (gd k g)) = Some b \/ (In o (g_req g) /\ lookup o (sget w (gsrc k g)) = Some b)) /\
  (forall g o, In g (collect m idx) -> has (sget w (gd k g)) o = true ->
     lookup o (sget (p_w out) (gd k g)) = lookup o (sget w (gd k g))) /\
  (forall s, (forall g, In g (collect m idx) -> gd k g <> s) -> sget (p_w out) s = sget w s).
Proof.
  intros e k m idx w out Hr He Hi Hw. split; [|split].
  - intros g o b. now apply (round_upper e k m idx w out).
  - intros g o. now apply (round_keeps e k m idx w out).
  - intros s. now apply (round_untouched e k m idx w out).
Qed.
Print Assumptions C18_moves_only_requested.

(* fetch into empty caches, one cache per remote group, no fault: the cache holds exactly the
   group's request (all of it reachable), with the remote's bytes *)
Theorem C18_fetch_exact_partial : forall e m idx w out,
  run_round e RFetch m idx w = out -> p_err out = None ->
  indep RFetch (collect m idx) ->
  (forall g, In g (collect m idx) -> wf (gin e RFetch w g)) ->
  (forall s o, e_fails e s o = false) ->
  (forall g o, In g (collect m idx) -> In o (g_req g) -> has (sget w (g_data g)) o = true) ->
  (forall g D b, In g (collect m idx) -> is_dir_oid D = true ->
                 lookup D (sget w (g_data g)) = Some b -> e_parse e b <> None) ->
  forall g, In g (collect m idx) -> sget w (gc g) = [] ->
    (forall o, In o (g_req g) -> has (sget (p_w out) (gc g)) o = true) /\
    (forall o b, lookup o (sget (p_w out) (gc g)) = Some b ->
       In o (g_req g) /\ In o (reachable idx) /\ lookup o (sget w (g_data g)) = Some b).
Proof. exact fetch_exact. Qed.
Print Assumptions C18_fetch_exact_partial.

(* fetch, ANY number of remote groups per cache, no fault: every cache holds the whole request of
   each of its groups; whatever a cache gained was requested by one of its groups, is reachable
   from the index and has the bytes it has in that group's remote.  Into empty caches: exactly. *)
Theorem C18_fetch_exact : forall e m idx w out,
  ord_ok (e_bord e) -> ord_ok (e_dord e) ->
  (forall b l f, e_parse e b = Some l -> In f l -> is_dir_oid f = false) ->
  e_parse e [] = None ->
  (forall s1 s2 D b1 b2, lookup D (sget w s1) = Some b1 -> lookup D (sget w s2) = Some b2 ->
                         e_parse e b1 = e_parse e b2) ->
  run_round e RFetch m idx w = out -> p_err out = None ->
  seqok RFetch (collect m idx) ->
  (forall g, In g (collect m idx) -> closed (e_parse e) (sget w (gc g))) ->
  (forall g, In g (collect m idx) -> req_closed e w g) ->
  (forall s o, e_fails e s o = false) ->
  (forall g o, In g (collect m idx) -> In o (g_req g) -> has (sget w (g_data g)) o = true) ->
  (forall g D b, In g (collect m idx) -> is_dir_oid D = true ->
                 lookup D (sget w (g_data g)) = Some b -> e_parse e b <> None) ->
  (forall g o, In g (collect m idx) -> In o (g_req g) -> has (sget (p_w out) (gc g)) o = true) /\
  (forall c o b, lookup o (sget (p_w out) c) = Some b ->
     lookup o (sget w c) = Some b \/
     exists g, In g (collect m idx) /\ gc g = c /\ In o (g_req g) /\ In o (reachable idx) /\
               lookup o (sget w (g_data g)) = Some b).
Proof. exact fetch_exact_seq. Qed.
Print Assumptions C18_fetch_exact.

(* checkout from the fetched caches reproduces the data: after a fault-free fetch into empty caches,
   every file entry whose key has a remote is linked with the bytes its object has in a remote.
   The last hypothesis is the fetch-side complement of the recorded finding: the cache the mapping
   designates for a key is the cache of the group of the key's remote. *)
Theorem C18_checkout : forall e m idx w out,
  NoDup (map fst m) ->
  ord_ok (e_bord e) -> ord_ok (e_dord e) ->
  (forall b l f, e_parse e b = Some l -> In f l -> is_dir_oid f = false) ->
  e_parse e [] = None ->
  (forall s1 s2 D b1 b2, lookup D (sget w s1) = Some b1 -> lookup D (sget w s2) = Some b2 ->
                         e_parse e b1 = e_parse e b2) ->
  run_round e RFetch m idx w = out -> p_err out = None ->
  seqok RFetch (collect m idx) ->
  (forall g, In g (collect m idx) -> sget w (gc g) = []) ->
  (forall g, In g (collect m idx) -> req_closed e w g) ->
  (forall s o, e_fails e s o = false) ->
  (forall g o, In g (collect m idx) -> In o (g_req g) -> has (sget w (g_data g)) o = true) ->
  (forall g D b, In g (collect m idx) -> is_dir_oid D = true ->
                 lookup D (sget w (g_data g)) = Some b -> e_parse e b <> None) ->
  (forall g k o, In g (collect m idx) -> In (k, o) (entries m idx) ->
                 remote_of m k = Some (g_data g) -> cache_of m k = g_cache g) ->
  forall k o r, In (k, o) (entries m idx) -> is_file_oid o = true -> remote_of m k = Some r ->
    exists b r', lookup o (sget w r') = Some b /\ In (k, Some b) (checkout_view m idx (p_w out)).
Proof. exact checkout_spec_seq. Qed.
Print Assumptions C18_checkout.

(* the same composed with C18_fetch_exact_partial (one cache per remote group): the bytes are the
   ones of the key's own remote *)
Theorem C18_checkout_own_remote : forall e m idx w out,
  NoDup (map fst m) ->
  run_round e RFetch m idx w = out -> p_err out = None ->
  indep RFetch (collect m idx) ->
  (forall g, In g (collect m idx) -> wf (gin e RFetch w g)) ->
  (forall s o, e_fails e s o = false) ->
  (forall g o, In g (collect m idx) -> In o (g_req g) -> has (sget w (g_data g)) o = true) ->
  (forall g D b, In g (collect m idx) -> is_dir_oid D = true ->
                 lookup D (sget w (g_data g)) = Some b -> e_parse e b <> None) ->
  (forall g, In g (collect m idx) -> sget w (gc g) = []) ->
  (forall g k o, In g (collect m idx) -> In (k, o) (entries m idx) ->
                 remote_of m k = Some (g_data g) -> cache_of m k = g_cache g) ->
  forall k o r, In (k, o) (entries m idx) -> is_file_oid o = true -> remote_of m k = Some r ->
    exists b, lookup o (sget w r) = Some b /\ In (k, Some b) (checkout_view m idx (p_w out)).
Proof. exact checkout_spec. Qed.
Print Assumptions C18_checkout_own_remote.

(* the general, sequential form behind both: destinations may coincide, sources are never
   destinations, every transfer well-formed at its turn *)
Theorem C18_seq : forall e k, (forall s o, e_fails e s o = false) -> forall gs w a b out,
  seqok k gs -> turns wf e k gs w -> run_groups e k gs w a b = out -> p_err out = None ->
  (forall g o, In g gs -> In o (g_req g) -> has (sget w (gsrc k g)) o = true) ->
  (forall g D bb, In g gs -> is_dir_oid D = true ->
                  lookup D (sget w (gsrc k g)) = Some bb -> e_parse e bb <> None) ->
  (forall s, (forall g, In g gs -> gd k g <> s) -> sget (p_w out) s = sget w s) /\
  (forall s o bb, lookup o (sget (p_w out) s) = Some bb ->
     lookup o (sget w s) = Some bb \/
     exists g, In g gs /\ gd k g = s /\ In o (g_req g) /\ lookup o (sget w (gsrc k g)) = Some bb) /\
  (forall s o, has (sget w s) o = true -> lookup o (sget (p_w out) s) = lookup o (sget w s)) /\
  (forall g o, In g gs -> In o (g_req g) -> has (sget (p_w out) (gd k g)) o = true).
Proof. exact seq_spec. Qed.
Print Assumptions C18_seq.

(* non-vacuity of C18_fetch_exact / C18_checkout: two remote groups, ONE empty cache (not [indep]) *)
Theorem C18_fetch_hypotheses_satisfiable :
  NoDup (map fst x_fmap1) /\
  ord_ok (e_bord (x_env nofail)) /\ ord_ok (e_dord (x_env nofail)) /\
  (forall b l f, x_parse b = Some l -> In f l -> is_dir_oid f = false) /\
  x_parse [] = None /\
  (forall s1 s2 D b1 b2, lookup D (sget x_w3 s1) = Some b1 -> lookup D (sget x_w3 s2) = Some b2 ->
                         x_parse b1 = x_parse b2) /\
  seqok RFetch (collect x_fmap1 x_idx) /\ ~ indep RFetch (collect x_fmap1 x_idx) /\
  (forall g, In g (collect x_fmap1 x_idx) -> sget x_w3 (gc g) = []) /\
  (forall g, In g (collect x_fmap1 x_idx) -> req_closed (x_env nofail) x_w3 g) /\
  (forall g o, In g (collect x_fmap1 x_idx) -> In o (g_req g) -> has (sget x_w3 (g_data g)) o = true) /\
  (forall g D b, In g (collect x_fmap1 x_idx) -> is_dir_oid D = true ->
                 lookup D (sget x_w3 (g_data g)) = Some b -> x_parse b <> None) /\
  (forall g k o, In g (collect x_fmap1 x_idx) -> In (k, o) (entries x_fmap1 x_idx) ->
                 remote_of x_fmap1 k = Some (g_data g) -> cache_of x_fmap1 k = g_cache g).
Proof. exact x_fetch_seq_hyps. Qed.
Print Assumptions C18_fetch_hypotheses_satisfiable.

(* pushed + failed (fetched + failed) = sum over the groups of |status.new| *)
Theorem C18_counts : forall e k m idx w out,
  run_round e k m idx w = out -> p_err out = None -> indep k (collect m idx) ->
  (forall g, In g (collect m idx) -> wf (gin e k w g)) ->
  p_moved out + p_failed out =
  fold_right (fun g acc => count (new_of (gin e k w g)) + acc) 0 (collect m idx).
Proof. exact round_counts. Qed.
Print Assumptions C18_counts.

(* the same without [indep] (several groups may deliver into one cache): each group's |new| is
   taken at its turn, [turns wf11] asks C11's quantifier of each input at its turn *)
Theorem C18_counts_seq : forall e k gs w a b out,
  turns wf11 e k gs w -> run_groups e k gs w a b = out -> p_err out = None ->
  p_moved out + p_failed out = a + b + news e k gs w.
Proof. exact counts_seq. Qed.
Print Assumptions C18_counts_seq.

(* a round with ANY failure subset, then a fault-free round: every group's destination holds the
   group's whole request (with C18_collect: every designated object) *)
Theorem C18_retry : forall e1 e2 k m idx w out1 out2,
  run_round e1 k m idx w = out1 -> p_err out1 = None ->
  run_round e2 k m idx (p_w out1) = out2 -> p_err out2 = None ->
  indep k (collect m idx) ->
  (forall g, In g (collect m idx) -> wf (gin e1 k w g)) ->
  e_parse e2 = e_parse e1 -> ord_ok (e_bord e2) -> ord_ok (e_dord e2) ->
  (forall s o, e_fails e2 s o = false) ->
  (forall g o, In g (collect m idx) -> In o (g_req g) -> has (sget w (gsrc k g)) o = true) ->
  (forall g D b, In g (collect m idx) -> is_dir_oid D = true ->
                 lookup D (sget w (gsrc k g)) = Some b -> e_parse e1 b <> None) ->
  forall g o, In g (collect m idx) -> In o (g_req g) -> has (sget (p_w out2) (gd k g)) o = true.
Proof. exact retry_round. Qed.
Print Assumptions C18_retry.

(* the state a round leaves is a legal start (C04's wf) for the next round of the same group *)
Theorem C18_wf_preserved : forall i1 i2,
  wf i1 -> t_cache i1 = Some (t_dst i1) -> t_cache i2 = Some (t_dst i2) ->
  t_src i2 = t_src i1 -> t_dst i2 = dst_after i1 -> t_parse i2 = t_parse i1 ->
  t_req i2 = t_req i1 -> t_shallow i2 = t_shallow i1 ->
  (t_dix i2 = None \/ t_dix i2 = Some []) ->
  ord_ok (t_bord i2) -> ord_ok (t_dord i2) ->
  (forall x, t_part i1 x = false) ->          (* atomic uploads in the first round: what push / fetch model *)
  t_trunc i2 = t_trunc i1 -> wf i2.
Proof. exact wf_next. Qed.
Print Assumptions C18_wf_preserved.

(* the run with real per-remote indexes coincides with the index-free run the theorems speak about
   wherever no group's remote has an index (in particular: always, when no remote has a tmp_dir) *)
Theorem C18_noindex_tie : forall e k gs w x a b,
  (forall g, In g gs -> iget x (g_data g) = None) ->
  run_groups_ix e k gs w x a b = (run_groups e k gs w a b, x).
Proof. exact run_groups_ix_noindex. Qed.
Print Assumptions C18_noindex_tie.

(* ---- hypotheses derived from the index and the map ---- *)

(* collect builds one group per remote *)
Theorem C18_groups_unique : forall m idx, NoDup (map g_data (collect m idx)).
Proof. exact collect_nodup. Qed.
Print Assumptions C18_groups_unique.

(* every group requests a directory object together with every file its listing names - the files a
   longer prefix re-routes included (iteritems(prefix) does not exclude them): the REQUEST needs no
   side condition; the split-directory finding is about where the objects ARE (no_split below) *)
Theorem C18_collect_closed : forall e w m idx,
  idx_ok e w idx -> forall g, In g (collect m idx) ->
  forall D s b l f, In D (g_req g) -> is_dir_oid D = true ->
    lookup D (sget w s) = Some b -> e_parse e b = Some l -> In f l -> In f (g_req g).
Proof. exact collect_closed. Qed.
Print Assumptions C18_collect_closed.

(* where all prefixes resolving to one remote resolve to one cache, the cache the mapping designates
   for a key is the cache of the group of the key's remote *)
Theorem C18_single_cache_per_group : forall m idx,
  NoDup (map fst m) -> single_cache m ->
  forall g k, In g (collect m idx) -> remote_of m k = Some (g_data g) -> cache_of m k = g_cache g.
Proof. exact cache_of_group. Qed.
Print Assumptions C18_single_cache_per_group.

(* ... and with index.save's placement and no cache re-routing, each group's cache holds its request *)
Theorem C18_group_cache_holds : forall w m idx,
  NoDup (map fst m) -> single_cache m -> no_split m idx -> placed w m idx -> caches_apart m idx ->
  forall g o, In g (collect m idx) -> In o (g_req g) -> has (sget w (gc g)) o = true.
Proof. exact group_cache_holds. Qed.
Print Assumptions C18_group_cache_holds.

(* C18_push with hypotheses on index, map and initial stores only *)
Theorem C18_push_map : forall e m idx w,
  NoDup (map fst m) -> ord_ok (e_bord e) -> ord_ok (e_dord e) ->
  (forall b l f, e_parse e b = Some l -> In f l -> is_dir_oid f = false) ->
  e_parse e [] = None ->
  (forall s1 s2 D b1 b2, lookup D (sget w s1) = Some b1 -> lookup D (sget w s2) = Some b2 ->
                         e_parse e b1 = e_parse e b2) ->
  (forall s D b, is_dir_oid D = true -> lookup D (sget w s) = Some b -> e_parse e b <> None) ->
  idx_ok e w idx -> single_cache m -> caches_apart m idx ->
  (forall s o, e_fails e s o = false) ->
  forall out,
  no_split m idx -> placed w m idx ->
  (forall g, In g (collect m idx) -> closed (e_parse e) (sget w (g_data g))) ->
  run_round e RPush m idx w = out -> p_err out = None ->
  forall r,
    (forall o, In o (designated m idx r) -> has (sget (p_w out) r) o = true) /\
    (forall o, has (sget (p_w out) r) o = true -> has (sget w r) o = true \/ In o (reachable idx)).
Proof. exact push_map. Qed.
Print Assumptions C18_push_map.

Theorem C18_fetch_map : forall e m idx w,
  ord_ok (e_bord e) -> ord_ok (e_dord e) ->
  (forall b l f, e_parse e b = Some l -> In f l -> is_dir_oid f = false) ->
  e_parse e [] = None ->
  (forall s1 s2 D b1 b2, lookup D (sget w s1) = Some b1 -> lookup D (sget w s2) = Some b2 ->
                         e_parse e b1 = e_parse e b2) ->
  (forall s D b, is_dir_oid D = true -> lookup D (sget w s) = Some b -> e_parse e b <> None) ->
  idx_ok e w idx -> caches_apart m idx ->
  (forall s o, e_fails e s o = false) ->
  forall out,
  (forall g, In g (collect m idx) -> closed (e_parse e) (sget w (gc g))) ->
  (forall g o, In g (collect m idx) -> In o (g_req g) -> has (sget w (g_data g)) o = true) ->
  run_round e RFetch m idx w = out -> p_err out = None ->
  (forall g o, In g (collect m idx) -> In o (g_req g) -> has (sget (p_w out) (gc g)) o = true) /\
  (forall c o b, lookup o (sget (p_w out) c) = Some b ->
     lookup o (sget w c) = Some b \/
     exists g, In g (collect m idx) /\ gc g = c /\ In o (g_req g) /\ In o (reachable idx) /\
               lookup o (sget w (g_data g)) = Some b).
Proof. exact fetch_map. Qed.
Print Assumptions C18_fetch_map.

Theorem C18_checkout_map : forall e m idx w,
  NoDup (map fst m) -> ord_ok (e_bord e) -> ord_ok (e_dord e) ->
  (forall b l f, e_parse e b = Some l -> In f l -> is_dir_oid f = false) ->
  e_parse e [] = None ->
  (forall s1 s2 D b1 b2, lookup D (sget w s1) = Some b1 -> lookup D (sget w s2) = Some b2 ->
                         e_parse e b1 = e_parse e b2) ->
  (forall s D b, is_dir_oid D = true -> lookup D (sget w s) = Some b -> e_parse e b <> None) ->
  idx_ok e w idx -> single_cache m -> caches_apart m idx ->
  (forall s o, e_fails e s o = false) ->
  forall out,
  (forall g, In g (collect m idx) -> sget w (gc g) = []) ->
  (forall g o, In g (collect m idx) -> In o (g_req g) -> has (sget w (g_data g)) o = true) ->
  run_round e RFetch m idx w = out -> p_err out = None ->
  forall k o r, In (k, o) (entries m idx) -> is_file_oid o = true -> remote_of m k = Some r ->
    exists b r', lookup o (sget w r') = Some b /\ In (k, Some b) (checkout_view m idx (p_w out)).
Proof. exact checkout_map. Qed.
Print Assumptions C18_checkout_map.

Theorem C18_map_hypotheses_satisfiable : forall fails,
  idx_ok (x_env fails) x_w x_idx /\ single_cache x_map /\ no_split x_map x_idx /\
  placed x_w x_map x_idx /\ caches_apart x_map x_idx /\
  (forall s1 s2 D b1 b2, lookup D (sget x_w s1) = Some b1 -> lookup D (sget x_w s2) = Some b2 ->
                         x_parse b1 = x_parse b2) /\
  (forall s D b, is_dir_oid D = true -> lookup D (sget x_w s) = Some b -> x_parse b <> None) /\
  (forall g, In g (collect x_map x_idx) -> closed x_parse (sget x_w (g_data g))).
Proof. exact x_map_hyps. Qed.
Print Assumptions C18_map_hypotheses_satisfiable.

(* ---- remotes with a real persistent index ---- *)

(* one transfer keeps a sound destination index sound: after the status phase and after the updates
   that follow a fully successful transfer it only names objects the destination holds *)
Theorem C18_index_preserved : forall i x tr fl,
  wf i -> t_dix i = Some x -> (forall o, ix_has x o = true -> has (t_dst i) o = true) ->
  o_outcome (transfer i) = TOk tr fl ->
  exists x', w_dix (final_world i) = Some x' /\ forall o, ix_has x' o = true -> has (dst_after i) o = true.
Proof. exact transfer_index_sound. Qed.
Print Assumptions C18_index_preserved.

(* fault-free push, every remote without an index or with a sound one (an empty one is): every
   designated object is in its remote, and every index is sound for the new contents *)
Theorem C18_push_indexed : forall e m idx w x out x',
  NoDup (map fst m) ->
  run_round_ix e RPush m idx w x = (out, x') -> p_err out = None ->
  indep RPush (collect m idx) ->
  (forall g, In g (collect m idx) -> wf (gix e w x g)) ->
  (forall g ix, In g (collect m idx) -> iget x (g_data g) = Some ix ->
                forall o, ix_has ix o = true -> has (sget w (g_data g)) o = true) ->
  (forall s o, e_fails e s o = false) ->
  (forall g o, In g (collect m idx) -> In o (g_req g) -> has (sget w (gc g)) o = true) ->
  (forall g D b, In g (collect m idx) -> is_dir_oid D = true ->
                 lookup D (sget w (gc g)) = Some b -> e_parse e b <> None) ->
  (forall r o, In o (designated m idx r) -> has (sget (p_w out) r) o = true) /\
  (forall g ix', In g (collect m idx) -> iget x' (g_data g) = Some ix' ->
                 forall o, ix_has ix' o = true -> has (sget (p_w out) (g_data g)) o = true).
Proof. exact push_indexed. Qed.
Print Assumptions C18_push_indexed.

Theorem C18_indexed_hypotheses_satisfiable : forall fails,
  (forall g, In g (collect x_map x_idx) -> wf (gix (x_env fails) x_w x_ix g)) /\
  (forall g ix, In g (collect x_map x_idx) -> iget x_ix (g_data g) = Some ix ->
                forall o, ix_has ix o = true -> has (sget x_w (g_data g)) o = true).
Proof. exact x_push_indexed_hyps. Qed.
Print Assumptions C18_indexed_hypotheses_satisfiable.

(* remotes attached read_only (ObjectStorage(..., read_only=True)): a push leaves their prefixes out
   of collect - no group, so (C18_moves_only_requested) nothing is written to them - and a fetch does
   not look at the flag; with none attached the run is the one the theorems speak about *)
Theorem C18_readonly : forall ro m idx,
  (forall g, In g (collect_ro ro m idx) -> existsb (N.eqb (g_data g)) ro = false) /\
  collect_ro [] m idx = collect m idx /\
  groups_ro RFetch ro m idx = collect m idx /\
  (forall e k w x, run_round_ro e k [] m idx w x = run_round_ix e k m idx w x).
Proof.
  intros ro m idx. split; [intros g; apply collect_ro_skips|]. split; [apply collect_ro_nil|].
  split; [reflexivity|]. intros e k w x. apply run_round_ro_nil.
Qed.
Print Assumptions C18_readonly.

(* non-vacuity: a concrete system (prefix inside a directory entry, two remotes) satisfies every
   hypothesis of C18_push / C18_counts / C18_retry for every failure oracle, and its run is the
   expected one (fault, retry, fetch, checkout) *)
Theorem C18_hypotheses_satisfiable : forall fails,
  NoDup (map fst x_map) /\ indep RPush (collect x_map x_idx) /\
  (forall g, In g (collect x_map x_idx) -> wf (gin (x_env fails) RPush x_w g)) /\
  (forall g o, In g (collect x_map x_idx) -> In o (g_req g) -> has (sget x_w (gc g)) o = true) /\
  (forall g D b, In g (collect x_map x_idx) -> is_dir_oid D = true ->
                 lookup D (sget x_w (gc g)) = Some b -> e_parse (x_env fails) b <> None).
Proof. exact x_push_hyps. Qed.
Print Assumptions C18_hypotheses_satisfiable.

(* ---- the directions and flags the model assumes are those of the source (unit fetchcall, every run) --------- *)
Theorem C18_fetch_call_is_source :
  fetch_src = OdbRemote /\ fetch_dst = OdbCache /\ fetch_verify_flag_of = OdbRemote /\
  fetch_src_index_of = OdbRemote /\ fetch_cache_odb = OdbCache /\
  fetch_requests_every_hashed_entry = true /\ fetch_counts_transferred_and_failed = true.
Proof. exact fetch_call_is_source. Qed.
Print Assumptions C18_fetch_call_is_source.

Theorem C18_push_call_is_source :
  push_src = OdbCache /\ push_dst = OdbRemote /\ push_passes_verify = false /\
  push_dest_index_of = OdbRemote /\ push_cache_odb = OdbRemote /\
  push_requests_every_hashed_entry = true /\ push_counts_transferred_and_failed = true.
Proof. exact push_call_is_source. Qed.
Print Assumptions C18_push_call_is_source.
