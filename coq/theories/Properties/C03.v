(* C03 - A directory's identifier is a canonical, deterministic function of its contents.
   Only statements here.  Models: Model/Listing.v (Tree), Model/HashSched.v (_get_hashes /
   _build_files / _build_tree), Base/Json.v (json.dumps printer + parser), Base/MD5.v.
   Proofs: Proofs/ListingSort.v, ListingProofs.v, JsonProofs.v, ListingInj.v, HashSchedProofs.v.

   Vocabulary (definitions in the Proofs files, all executable booleans or plain list facts):
     obs e          = (e_key e, hash_emit (e_hash e))     the (relative path, file digest) pair
     NoDupKeys t    = NoDup (map e_key t)                  a Python dict
     KeysOk t       = every key has >= 1 part and no part contains the separator
     NoDupRelpaths t= the joined paths are pairwise distinct (implied by the two above)
     Wf t           = KeysOk + names / hash texts are Unicode scalar values + the hash
                      algorithm is not called "relpath"
   No theorem depends on any property of MD5 or of the JSON printer except C03_inj / C03_roundtrip,
   which use  parse_doc (print_doc d) = Some d  (C03_json_parse_print, proved, unbounded).

   Deviations from DESIGN section 6, all strengthenings or clarifications:
   * C03_inj / C03_roundtrip are stated on the observable pairs [obs] - the listing does not carry
     the Meta, and md5-dos2unix is written as md5 - exactly "the set of (relpath, digest) pairs".
   * C03_subtree is stated for every tree that contains the sub-directory below the prefix
     (and for every enumeration order of the sub-tree: C03_subtree_any_order, which is what
     makes the dict-order model of get_obj agree with pygtrie's order).
   * C03_schedule is an equation with a right-hand side free of threshold, jobs, delivery order,
     sizes and cache answers (C03_schedule_files / _oid), plus the two-run corollaries: same walk
     (C03_schedule) and any other walk / listdir order (C03_schedule_walk).
   * Necessity results (each hypothesis clause is needed; none of these inputs can come from a
     file system walk of valid UTF-8 names with a real hash algorithm): C03_perm_separator_refuted,
     C03_inj_surrogates_refuted, C03_inj_separator_refuted, C03_inj_relpath_name_refuted. *)
From Coq Require Import NArith List Bool Permutation.
From DvcData Require Import Base.Val Base.MD5 Base.Json Model.Listing Model.HashSched.
From DvcData Require Import Proofs.ListingSort Proofs.ListingProofs Proofs.JsonProofs Proofs.ListingInj Proofs.HashSchedProofs.
From DvcData Require Import Model.ListingHist Proofs.ListingHistProofs Model.HashSchedPath Proofs.HashSchedPathProofs.
From DvcData Require Import Gen.Tree Proofs.ListingGenTie.
Import ListNotations.
Open Scope N_scope.

(* ---- a pure function of the multiset of (key, digest) pairs ---- *)
Theorem C03_canonical : forall t t',
  NoDupRelpaths t -> Permutation (map obs t) (map obs t') -> as_bytes false t = as_bytes false t'.
Proof. exact as_bytes_obs. Qed.
Print Assumptions C03_canonical.

(* ---- insertion / walk order ---- *)
Theorem C03_perm : forall b t t',
  KeysOk t -> NoDupKeys t -> Permutation t t' -> as_bytes b t = as_bytes b t'.
Proof. exact as_bytes_perm. Qed.
Print Assumptions C03_perm.

Theorem C03_perm_relpath : forall b t t',
  NoDupRelpaths t -> Permutation t t' -> as_bytes b t = as_bytes b t'.
Proof. exact as_bytes_perm_relpath. Qed.
Print Assumptions C03_perm_relpath.

Theorem C03_perm_digest : forall t t',
  KeysOk t -> NoDupKeys t -> Permutation t t' -> digest t = digest t'.
Proof. exact digest_perm. Qed.
Print Assumptions C03_perm_digest.

(* Tree.add in any order *)
Theorem C03_insertion_order : forall es es',
  KeysOk es -> NoDupKeys es -> Permutation es es' ->
  digest (tree_of_list es) = digest (tree_of_list es').
Proof. exact digest_insertion_order. Qed.
Print Assumptions C03_insertion_order.

(* KeysOk is necessary: a part containing the separator makes the listing order-dependent
   (("a/b",) and ("a","b") have the same relpath; the sort is stable) *)
Theorem C03_perm_separator_refuted : exists t t',
  NoDupKeys t /\ Permutation t t' /\ as_bytes false t <> as_bytes false t'.
Proof. exact as_bytes_perm_separator_refuted. Qed.
Print Assumptions C03_perm_separator_refuted.

(* ---- metadata ---- *)
Theorem C03_meta_blind : forall (f : entry -> option meta) t, digest (map (set_meta f) t) = digest t.
Proof. exact digest_meta_blind. Qed.
Print Assumptions C03_meta_blind.

Theorem C03_meta_blind_rel : forall t t',
  Forall2 (fun a b => e_key a = e_key b /\ e_hash a = e_hash b) t t' -> digest t = digest t'.
Proof. exact digest_meta_blind_rel. Qed.
Print Assumptions C03_meta_blind_rel.

(* ---- two different sets never serialise to the same bytes ---- *)
Theorem C03_inj : forall t t',
  Wf t -> Wf t' -> as_bytes false t = as_bytes false t' -> Permutation (map obs t) (map obs t').
Proof. exact as_bytes_inj. Qed.
Print Assumptions C03_inj.

(* without the scalar-value clause of Wf the statement is false: U+1F600 and the lone surrogates
   U+D83D U+DE00 (not a valid UTF-8 file name) print identically under ensure_ascii *)
Theorem C03_inj_surrogates_refuted : exists t t',
  KeysOk t /\ KeysOk t' /\ NoDupKeys t /\ NoDupKeys t' /\
  as_bytes false t = as_bytes false t' /\ ~ Permutation (map obs t) (map obs t').
Proof. exact as_bytes_inj_surrogates_refuted. Qed.
Print Assumptions C03_inj_surrogates_refuted.

(* the other clauses of Wf are necessary too *)
Theorem C03_inj_separator_refuted : exists t t',
  NoDupKeys t /\ NoDupKeys t' /\
  as_bytes false t = as_bytes false t' /\ ~ Permutation (map obs t) (map obs t').
Proof. exact as_bytes_inj_separator_refuted. Qed.
Print Assumptions C03_inj_separator_refuted.

Theorem C03_inj_relpath_name_refuted : exists t t',
  KeysOk t /\ KeysOk t' /\ NoDupKeys t /\ NoDupKeys t' /\
  as_bytes false t = as_bytes false t' /\ ~ Permutation (map obs t) (map obs t').
Proof. exact as_bytes_inj_relpath_name_refuted. Qed.
Print Assumptions C03_inj_relpath_name_refuted.

(* ---- serialise, re-parse ---- *)
Theorem C03_roundtrip : forall t, Wf t -> NoDupKeys t ->
  exists t', from_bytes None (as_bytes false t) = FlOk t' /\
    map obs t' = sorted_obs t /\ Permutation (map obs t') (map obs t) /\
    as_bytes false t' = as_bytes false t /\ digest t' = digest t.
Proof. exact from_bytes_as_bytes. Qed.
Print Assumptions C03_roundtrip.

(* Tree.load from a legacy md5-dos2unix store (hash_name = "md5-dos2unix") *)
Theorem C03_roundtrip_dos2unix : forall t, Wf t -> NoDupKeys t ->
  (forall e, In e t -> md5_valued (obs e)) ->
  exists t', from_bytes (Some s_md5_dos2unix) (as_bytes false t) = FlOk t' /\
    map obs t' = sorted_obs t /\ Permutation (map obs t') (map obs t) /\
    as_bytes false t' = as_bytes false t /\ digest t' = digest t.
Proof. exact from_bytes_as_bytes_d2u. Qed.
Print Assumptions C03_roundtrip_dos2unix.

Theorem C03_json_parse_print : forall d, wf_doc d = true -> parse_doc (print_doc d) = Some d.
Proof. exact parse_print. Qed.
Print Assumptions C03_json_parse_print.

(* ---- sub-directory ---- *)
Theorem C03_subtree : forall p sub others t,
  KeysOk sub -> NoDupKeys sub -> sub <> [] ->
  (forall e, In e others -> is_prefix p (e_key e) = false) ->
  Permutation t (map (prepend p) sub ++ others) ->
  get_obj t p = Some (digest sub).
Proof. exact get_obj_subtree. Qed.
Print Assumptions C03_subtree.

Theorem C03_subtree_any_order : forall p sub others t l,
  KeysOk sub -> NoDupKeys sub ->
  (forall e, In e others -> is_prefix p (e_key e) = false) ->
  Permutation t (map (prepend p) sub ++ others) ->
  Permutation l (under p t) ->
  digest (tree_of_list (map (reroot (length p)) l)) = digest sub.
Proof. exact subtree_digest_any_order. Qed.
Print Assumptions C03_subtree_any_order.

(* ---- at every point of the life of one Tree object (Model/ListingHist.v) ----
   tree.py answers get_obj / filter / iteritems from a cached pygtrie that add() must drop; the
   model has no cache, so these theorems say what the cache has to preserve: an answer is a
   function of the Adds that precede it, whatever queries were interleaved. *)
Theorem C03_history_query : forall ops q t,
  fst (run_hist (ops ++ [q]) t) =
  fst (run_hist ops t) ++ match answer q (state_after ops t) with Some a => [a] | None => [] end.
Proof. exact hist_query. Qed.
Print Assumptions C03_history_query.

Theorem C03_history_queries_irrelevant : forall ops ops' q t,
  adds_of ops = adds_of ops' ->
  state_after ops t = state_after ops' t /\
  answer q (state_after ops t) = answer q (state_after ops' t).
Proof. exact hist_queries_irrelevant. Qed.
Print Assumptions C03_history_queries_irrelevant.

Theorem C03_history_subtree : forall ops t0 p sub others,
  KeysOk sub -> NoDupKeys sub -> sub <> [] ->
  (forall e, In e others -> is_prefix p (e_key e) = false) ->
  Permutation (state_after ops t0) (map (prepend p) sub ++ others) ->
  fst (run_hist (ops ++ [HGetObj p]) t0) = fst (run_hist ops t0) ++ [AObj (Some (digest sub))].
Proof. exact hist_get_obj_subtree. Qed.
Print Assumptions C03_history_subtree.

(* ---- threads, threshold, completion order, cache temperature ---- *)
Theorem C03_schedule_files : forall c done fs,
  NoDupNames fs -> StateSound c fs -> Delivers c done fs ->
  build_files c done fs = Some (map (fun f => (f_name f, (c_name c, f_true f))) fs).
Proof. exact build_files_spec. Qed.
Print Assumptions C03_schedule_files.

Theorem C03_schedule_oid : forall c dones walk,
  WalkOk c dones walk -> build_oid c dones walk = Some (digest (spec_tree (c_name c) walk)).
Proof. exact build_oid_spec. Qed.
Print Assumptions C03_schedule_oid.

Theorem C03_schedule : forall c c' dones dones' walk walk',
  c_name c = c_name c' -> contents walk = contents walk' ->
  WalkOk c dones walk -> WalkOk c' dones' walk' ->
  build_oid c dones walk = build_oid c' dones' walk'.
Proof. exact build_oid_schedule. Qed.
Print Assumptions C03_schedule.

(* ... and the directories may be walked, and the files of each listed, in any order *)
Theorem C03_schedule_walk : forall c c' dones dones' walk walk',
  c_name c = c_name c' ->
  WalkOk c dones walk -> WalkOk c' dones' walk' ->
  KeysOk (walk_entries (c_name c) (contents walk)) ->
  NoDupKeys (walk_entries (c_name c) (contents walk)) ->
  Permutation (walk_entries (c_name c) (contents walk)) (walk_entries (c_name c) (contents walk')) ->
  build_oid c dones walk = build_oid c' dones' walk'.
Proof. exact build_oid_schedule_walk. Qed.
Print Assumptions C03_schedule_walk.

(* ---- how the staged directory is spelled (Model/HashSchedPath.v: the key arithmetic of _build_tree) ---- *)
Theorem C03_path_spelling : forall path n root,
  rel_key_of (path ++ repeat slash n) root = rel_key_of path root.
Proof. exact rel_key_trailing_sep. Qed.
Print Assumptions C03_path_spelling.

Theorem C03_rel_key : forall path k, key_ok k = true ->
  rel_key_of path (rstrip_sep slash path ++ slash :: relpath k) = k.
Proof. exact rel_key_of_join. Qed.
Print Assumptions C03_rel_key.

(* ---- Tree.digest(with_meta=...) : the flag selects the stored content, never the identifier ---- *)
Theorem C03_digest_with_meta_flag : forall b t oid content,
  digest_obj b t = Some (oid, content) -> oid = digest t.
Proof. exact digest_obj_oid. Qed.
Print Assumptions C03_digest_with_meta_flag.

(* ---- the model equals what the translator regenerates from hashfile/tree.py (Gen/Tree.v) ----
   translator/treeunit.py checks the statement shapes of Tree.add / __iter__ / as_list / as_bytes /
   digest / from_list fail-closed and emits their decisions; these theorems tie Model/Listing.v to
   them, and restate the property over the generated functions. *)
Theorem C03_gen_add : forall k m h t,
  g_add k m h t = add {| e_key := k; e_meta := m; e_hash := h |} t /\ g_add_drops_trie = true.
Proof. intros. split; [apply tie_add | apply tie_add_drops_trie]. Qed.
Print Assumptions C03_gen_add.

Theorem C03_gen_as_bytes : forall b t, as_bytes b t = g_as_bytes b t.
Proof. exact tie_as_bytes. Qed.
Print Assumptions C03_gen_as_bytes.

Theorem C03_gen_digest : forall b t, g_digest b t = digest t.
Proof. exact tie_digest. Qed.
Print Assumptions C03_gen_digest.

Theorem C03_gen_from_bytes : forall hn raw, hn <> Some [] -> from_bytes hn raw = g_from_bytes hn raw.
Proof. exact tie_from_bytes. Qed.
Print Assumptions C03_gen_from_bytes.

Theorem C03_gen_canonical : forall t t',
  NoDupRelpaths t -> Permutation (map obs t) (map obs t') -> g_as_bytes false t = g_as_bytes false t'.
Proof. exact gen_canonical. Qed.
Print Assumptions C03_gen_canonical.

Theorem C03_gen_perm : forall b t t',
  KeysOk t -> NoDupKeys t -> Permutation t t' ->
  g_as_bytes b t = g_as_bytes b t' /\ g_digest b t = g_digest b t'.
Proof. exact gen_perm. Qed.
Print Assumptions C03_gen_perm.

Theorem C03_gen_meta_blind : forall b b' (f : entry -> option meta) t,
  g_digest b (map (set_meta f) t) = g_digest b' t.
Proof. exact gen_meta_blind. Qed.
Print Assumptions C03_gen_meta_blind.

Theorem C03_gen_inj : forall t t',
  Wf t -> Wf t' -> g_as_bytes false t = g_as_bytes false t' -> Permutation (map obs t) (map obs t').
Proof. exact gen_inj. Qed.
Print Assumptions C03_gen_inj.

Theorem C03_gen_roundtrip : forall t, Wf t -> NoDupKeys t ->
  exists t', g_from_bytes None (g_as_bytes false t) = FlOk t' /\
    map obs t' = sorted_obs t /\ Permutation (map obs t') (map obs t) /\
    g_as_bytes false t' = g_as_bytes false t /\ g_digest false t' = g_digest false t.
Proof. exact gen_roundtrip. Qed.
Print Assumptions C03_gen_roundtrip.

(* ---- Tree.load: the stored listing re-loads to the same (path, digest) pairs; the empty listing too ---- *)
Theorem C03_gen_load_empty : forall odb_name, g_load odb_name None (g_as_bytes false []) = FlOk [].
Proof. exact gen_load_empty. Qed.
Print Assumptions C03_gen_load_empty.

Theorem C03_gen_load_roundtrip : forall t, Wf t -> NoDupKeys t ->
  exists t', g_load s_md5 None (g_as_bytes false t) = FlOk t' /\
    map obs t' = sorted_obs t /\ Permutation (map obs t') (map obs t) /\
    g_as_bytes false t' = g_as_bytes false t /\ g_digest false t' = g_digest false t.
Proof. exact gen_load_roundtrip. Qed.
Print Assumptions C03_gen_load_roundtrip.

Theorem C03_gen_load_roundtrip_dos2unix : forall t, Wf t -> NoDupKeys t ->
  (forall e, In e t -> md5_valued (obs e)) ->
  exists t', g_load s_md5_dos2unix None (g_as_bytes false t) = FlOk t' /\
    map obs t' = sorted_obs t /\ Permutation (map obs t') (map obs t) /\
    g_as_bytes false t' = g_as_bytes false t /\ g_digest false t' = g_digest false t.
Proof. exact gen_load_roundtrip_d2u. Qed.
Print Assumptions C03_gen_load_roundtrip_dos2unix.
