(* C06 - Garbage collection removes exactly the unused objects and never a used one.
   Only statements here; proofs are in Proofs/GcProofs.v, the model in Model/Gc.v.
   [gc] is assembled from the decisions GENERATED from the AST of gc.py (Gen/GcDecisions.v,
   translator unit "gc", regenerated on every run); C06_model_is_flat and
   C06_generated_decisions at the end tie them to the flat reading the theorems are proved
   about, so an edit of gc() breaks the translation or one of these proofs. *)
From Coq Require Import NArith List Bool.
From DvcData Require Import Base.Val Gen.GcDecisions Model.Gc Proofs.GcProofs.
Import ListNotations.
Open Scope N_scope.

(* [Used i o]: o is the value of a used hash info of the store's algorithm, or - in expanding
   mode - is listed by such a used directory object.  (Definition in GcProofs, repeated in the
   statement of C06_exact through the characterising boolean.) *)

Theorem C06_keeps : forall i n s' o,
  gc i = GcOk n s' -> Used i o -> In o (g_store i) -> In o s'.
Proof. exact gc_keeps. Qed.
Print Assumptions C06_keeps.

Theorem C06_exact : forall i n s', gc i = GcOk n s' ->
  exists usedb : oid -> bool,
    (forall o, usedb o = true <-> Used i o) /\
    n = N.of_nat (length (filter (fun o => negb (usedb o)) (g_store i))) /\
    s' = (if g_dry i then g_store i else filter usedb (g_store i)).
Proof. exact gc_exact. Qed.
Print Assumptions C06_exact.

Theorem C06_removes : forall i n s' o,
  gc i = GcOk n s' -> g_dry i = false -> ~ Used i o -> ~ In o s'.
Proof. exact gc_removes. Qed.
Print Assumptions C06_removes.

Theorem C06_no_invention : forall i n s' o, gc i = GcOk n s' -> In o s' -> In o (g_store i).
Proof. exact gc_no_invention. Qed.
Print Assumptions C06_no_invention.

Theorem C06_count : forall i n s', gc i = GcOk n s' -> g_dry i = false ->
  (N.to_nat n + length s' = length (g_store i))%nat.
Proof. exact gc_count. Qed.
Print Assumptions C06_count.

Theorem C06_dry : forall i n s', gc i = GcOk n s' -> g_dry i = true -> s' = g_store i.
Proof. exact gc_dry. Qed.
Print Assumptions C06_dry.

Theorem C06_readonly : forall i, g_ro i = true -> gc i = GcErr 1.
Proof. exact gc_readonly. Qed.
Print Assumptions C06_readonly.

(* the only failures: read-only refusal, or an expanding run that cannot load a used directory *)
Theorem C06_errors : forall i k, gc i = GcErr k ->
  (k = 1 /\ g_ro i = true) \/ (g_ro i = false /\ g_shallow i = false /\ (k = 2 \/ k = 3)).
Proof. exact gc_errors. Qed.
Print Assumptions C06_errors.

(* --- the container kind of `used` (gc takes Iterable[HashInfo]) ---
   An Ok result depends on the MEMBERS of `used` alone: not on the order, not on duplicates
   (list / tuple / set / frozenset / one-shot iterator all denote the same members). *)
Theorem C06_used_set : forall i u2 n1 s1 n2 s2,
  (forall x, In x (g_used i) <-> In x u2) ->
  gc i = GcOk n1 s1 -> gc (with_used i u2) = GcOk n2 s2 -> n1 = n2 /\ s1 = s2.
Proof. exact gc_used_set. Qed.
Print Assumptions C06_used_set.

(* gc succeeds exactly when the store is writable and no used directory object of the store's
   algorithm fails to load in expanding mode - again a statement about members only *)
Theorem C06_ok_iff : forall i,
  (exists n s', gc i = GcOk n s') <-> (g_ro i = false /\ ~ LoadFails i).
Proof. exact gc_ok_iff. Qed.
Print Assumptions C06_ok_iff.

Theorem C06_ok_used_set : forall i u2,
  (forall x, In x (g_used i) <-> In x u2) ->
  (exists n s', gc i = GcOk n s') <-> (exists n s', gc (with_used i u2) = GcOk n s').
Proof. exact gc_ok_used_set. Qed.
Print Assumptions C06_ok_used_set.

(* --- the size of the store ---
   All statements above are unbounded in the length of g_store.  Moreover the decision on an
   object never depends on the rest of the store: gc over s1 ++ s2 is gc over s1 and gc over s2
   put together, so there is no size threshold in the model (the harness runs stores beyond the
   listing page size of the real file system because an implementation could have one). *)
Theorem C06_store_app : forall i s1 s2 n s',
  g_store i = s1 ++ s2 -> gc i = GcOk n s' ->
  exists n1 k1 n2 k2,
    gc (with_store i s1) = GcOk n1 k1 /\ gc (with_store i s2) = GcOk n2 k2 /\
    n = n1 + n2 /\ s' = k1 ++ k2.
Proof. exact gc_store_app. Qed.
Print Assumptions C06_store_app.

(* --- cache_odb (where directory objects are read from) and its algorithm ---
   gc i reads the cache only through g_trees (its listings).  Every theorem above already has
   the cache as a separate argument: Used i o / LoadFails i speak of `load (g_trees i)`, and of
   ids whose name is g_alg i - the algorithm of the COLLECTED store.  Stated explicitly: *)
Theorem C06_cache_alg_irrelevant : forall i a, gc (with_cache_alg i a) = gc i.
Proof. exact gc_cache_alg_irrelevant. Qed.
Print Assumptions C06_cache_alg_irrelevant.

(* ids of any other algorithm than the collected store's (e.g. the cache's) protect nothing
   and cause nothing: dropping them from `used` leaves the result - error kinds included - as is *)
Theorem C06_other_alg : forall i,
  gc (with_used i (filter (fun p => list_N_eqb (fst p) (g_alg i)) (g_used i))) = gc i.
Proof. exact gc_other_alg. Qed.
Print Assumptions C06_other_alg.

(* --- the tie between gc.py and the model ---
   gc (built from GcDecisions.*, generated from the source) is the flat function gc_flat:
   refuse when read-only; used := ids of the collected store's algorithm (+ listed files when
   expanding, listings from cache_odb); count the store objects that are not used; remove them
   unless dry. *)
Theorem C06_model_is_flat : forall i, gc i = gc_flat i.
Proof. exact gc_eq. Qed.
Print Assumptions C06_model_is_flat.

(* the individual decisions read off the source *)
Theorem C06_generated_decisions :
  (* the read-only guard is the first statement and looks at odb.read_only only (not at dry) *)
  hd_error GcDecisions.phases = Some GcDecisions.PhGuard /\
  (forall ro dry sh, GcDecisions.read_only_refused ro dry sh = ro) /\
  (* the algorithm filter compares hash_info.name with the COLLECTED store's hash_name *)
  (forall name alg calg dry sh, GcDecisions.used_skip name alg calg dry sh = negb (list_N_eqb name alg)) /\
  (* expansion: isdir and not shallow, listings loaded from cache_odb *)
  (forall isdir dry sh, GcDecisions.expand isdir dry sh = isdir && negb sh) /\
  GcDecisions.tree_source = GcDecisions.FromCache /\
  (* the scan walks the collected store, skips exactly the used ids, partitions by the .dir suffix *)
  GcDecisions.scan_source = GcDecisions.ScanOdb /\
  (forall b dry sh, GcDecisions.scan_skip b dry sh = b) /\
  (forall d dry sh, GcDecisions.scan_target d dry sh = if d then GcDecisions.DirPaths else GcDecisions.FilePaths) /\
  GcDecisions.dir_suffix = dot_dir /\
  (* both lists are counted when non-empty, dry or not, and removed only when not dry *)
  GcDecisions.removal_lists = [GcDecisions.DirPaths; GcDecisions.FilePaths] /\
  (forall ne dry sh, GcDecisions.counted ne dry sh = ne) /\
  (forall ne dry sh, GcDecisions.removed ne dry sh = ne && negb dry) /\
  (* defaults of the keyword parameters *)
  GcDecisions.default_shallow = true /\ GcDecisions.default_dry = false.
Proof. exact gc_generated_decisions. Qed.
Print Assumptions C06_generated_decisions.
