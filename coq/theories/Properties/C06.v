(* C06 - Garbage collection removes exactly the unused objects and never a used one.
   Only statements here; proofs are in Proofs/GcProofs.v, the model in Model/Gc.v. *)
From Coq Require Import NArith List Bool.
From DvcData Require Import Base.Val Model.Gc Proofs.GcProofs.
Import ListNotations.
Open Scope N_scope.

(* [Used i o]: o is the value of a used hash info of the store's algorithm, or - in expanding
   mode - is listed by such a used directory object.  (Definition in GcProofs, repeated in the
   statement of C06_exact through the characterising boolean.) *)

Theorem C06_keeps : forall i n s' o,
  gc i = GcOk n s' -> Used i o -> In o (g_store i) -> In o s'.
Proof. exact gc_keeps. Qed.
Print Assumptions C06_keeps.

Theorem C06_exact : forall i n s', gc i = GcOk n s' ->
  exists usedb : oid -> bool,
    (forall o, usedb o = true <-> Used i o) /\
    n = N.of_nat (length (filter (fun o => negb (usedb o)) (g_store i))) /\
    s' = (if g_dry i then g_store i else filter usedb (g_store i)).
Proof. exact gc_exact. Qed.
Print Assumptions C06_exact.

Theorem C06_removes : forall i n s' o,
  gc i = GcOk n s' -> g_dry i = false -> ~ Used i o -> ~ In o s'.
Proof. exact gc_removes. Qed.
Print Assumptions C06_removes.

Theorem C06_no_invention : forall i n s' o, gc i = GcOk n s' -> In o s' -> In o (g_store i).
Proof. exact gc_no_invention. Qed.
Print Assumptions C06_no_invention.

Theorem C06_count : forall i n s', gc i = GcOk n s' -> g_dry i = false ->
  (N.to_nat n + length s' = length (g_store i))%nat.
Proof. exact gc_count. Qed.
Print Assumptions C06_count.

Theorem C06_dry : forall i n s', gc i = GcOk n s' -> g_dry i = true -> s' = g_store i.
Proof. exact gc_dry. Qed.
Print Assumptions C06_dry.

Theorem C06_readonly : forall i, g_ro i = true -> gc i = GcErr 1.
Proof. exact gc_readonly. Qed.
Print Assumptions C06_readonly.

(* the only failures: read-only refusal, or an expanding run that cannot load a used directory *)
Theorem C06_errors : forall i k, gc i = GcErr k ->
  (k = 1 /\ g_ro i = true) \/ (g_ro i = false /\ g_shallow i = false /\ (k = 2 \/ k = 3)).
Proof. exact gc_errors. Qed.
Print Assumptions C06_errors.
