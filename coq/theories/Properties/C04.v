(* C04 - Transfer keeps the destination closed: a directory object implies its files.
   Only statements here; the model is Model/Transfer.v (transfer, _do_transfer, _add, status with
   and without the remote index), proofs in Proofs/Transfer{Base,Status,Loop,Proofs}.v.

   Reading guide.  [transfer i] runs the model on input [i] (stores, request, flags, indexes and
   the three oracles: which uploads raise [t_fails], iteration order of the directory set
   [t_dord], upload order inside one batch [t_bord]) and yields the list of events
   (Put o ok | Drop o | IndexUpdate | SrcIndexClear).  A process killed anywhere is a prefix of
   that list: [killed_world i n].  [closed parse s]: every directory object present in [s] whose
   bytes parse to a listing has every listed id present in [s].
   All theorems are for arbitrary stores, requests, order oracles and failure oracles (unbounded
   lists); nothing is sampled.

   Deviation from DESIGN section 6: the DESIGN lets the failure oracle depend on (id, attempt);
   the implementation attempts every id at most once per transfer (file_ids -= entry_ids), so the
   oracle is a function of the id.  [wf] spells out the property's own quantifier (closed
   request, closed destination) plus the environment hypotheses the proof needs (C04_wf_meaning). *)
From Coq Require Import NArith List Bool.
From DvcData Require Import Base.Val Model.Transfer Gen.TransferGen Proofs.TransferBase Proofs.TransferStatus Proofs.TransferLoop Proofs.TransferProofs Proofs.TransferGenTie.
Import ListNotations.
Open Scope N_scope.

(* what [wf i] asks for *)
Theorem C04_wf_meaning : forall i, wf i <->
  (  (forall l o, In o (t_bord i l) <-> In o l)            (* batch order oracle: any rearrangement *)
  /\ (forall l o, In o (t_dord i l) <-> In o l)            (* directory order oracle: any rearrangement *)
  /\ (forall b l f, t_parse i b = Some l -> In f l -> is_dir_oid f = false)   (* listings are flat *)
  /\ (agree (t_parse i) (status_cache i) (t_src i) /\ agree (t_parse i) (status_cache i) (t_dst i))
                                                           (* content addressing: same id, same listing *)
  /\ closed (t_parse i) (t_dst i)                          (* the destination starts closed *)
  /\ match t_dix i with                                    (* the destination index is sound (C12) *)
     | None => True
     | Some x => ix_detected i x \/ forall o, ix_has x o = true -> has (t_dst i) o = true
     end                                                   (* ... or stale in the way status() detects
                                                              and clears: a directory is queried and an
                                                              indexed directory object has vanished *)
  /\ (t_shallow i = false \/                               (* closed request *)
      forall D l f, In D (t_req i) -> is_dir_oid D = true -> find_tree i D = Some l -> In f l ->
                    In f (t_req i))
  /\ (forall o, is_dir_oid o = true -> t_parse i (t_trunc i o) = None)).
                                   (* a truncated directory object (non-atomic upload) does not parse *)
Proof.
  intros i. split.
  - intros [A B C D E F G H]. repeat split; auto; try apply A; try apply B; destruct D; auto.
  - intros [A [B [C [D [E [F [G H]]]]]]]. constructor; auto.
Qed.
Print Assumptions C04_wf_meaning.

(* wherever the process is killed, whatever uploads fail, in whatever order: closed *)
Theorem C04_prefix_closed : forall i n, wf i -> closed (t_parse i) (w_dst (killed_world i n)).
Proof. exact prefix_closed. Qed.
Print Assumptions C04_prefix_closed.

(* and every file a present directory lists is whole: there before, or delivered - never the
   truncated leftover of a failed non-atomic upload, never an object verification removes *)
Theorem C04_prefix_intact : forall i n D l f, wf i ->
  listing (t_parse i) (w_dst (killed_world i n)) D = Some l -> In f l ->
  has (w_dst (killed_world i n)) f = true /\ (has (t_dst i) f = true \/ delivered i f = true).
Proof.
  intros i n D l f Hw HL Hf. destruct (prefix_intact i n Hw D l f HL Hf) as [H1 H2]. split; auto.
  unfold stable in H2. now apply orb_true_iff in H2.
Qed.
Print Assumptions C04_prefix_intact.

Theorem C04_final_closed : forall i, wf i -> closed (t_parse i) (w_dst (final_world i)).
Proof. exact final_closed. Qed.
Print Assumptions C04_final_closed.

(* the abort points the harness imposes on the real code (right after the n-th upload attempt)
   are such prefixes *)
Theorem C04_abort_point_closed : forall i n, wf i ->
  closed (t_parse i) (apply_dst (t_src i) (upto_put n (o_events (transfer i))) (t_dst i)).
Proof. exact upto_put_closed. Qed.
Print Assumptions C04_abort_point_closed.

(* a listed file that is not there afterwards: the directory object is withheld (absent, or at
   most the truncated leftover of its own failed non-atomic upload, which parses to nothing), and it is
   reported as failed - unless a listed file is missing on both sides (then it is only withheld:
   that reporting gap is C11's recorded finding) *)
Theorem C04_withheld : forall i st tr fl D l f,
  wf i -> o_status (transfer i) = Some st -> o_outcome (transfer i) = TOk tr fl ->
  In D (c_new st) -> is_dir_oid D = true -> find_tree i D = Some l -> In f l ->
  has (w_dst (final_world i)) f = false ->
  (has (w_dst (final_world i)) D = false \/ exists b, In (Partial D b) (o_events (transfer i))) /\
  (In D fl \/ exists g, In g l /\ In g (c_missing st)).
Proof. exact withheld. Qed.
Print Assumptions C04_withheld.

(* a round completes the destination as far as uploads succeed: with a failure oracle that never
   fires, [delivered i o] is "o is in the source and (verify) its bytes hash to o" (C04_faultfree) *)
Theorem C04_retry : forall i tr fl,
  wf i -> o_outcome (transfer i) = TOk tr fl ->
  (forall f, In f (t_req i) -> is_dir_oid f = false -> delivered i f = true ->
             has (w_dst (final_world i)) f = true) /\
  (forall D l, In D (t_req i) -> is_dir_oid D = true -> delivered i D = true -> find_tree i D = Some l ->
     (forall f, In f l -> has (t_dst i) f = true \/ delivered i f = true) ->
     has (w_dst (final_world i)) D = true).
Proof. exact retry. Qed.
Print Assumptions C04_retry.

Theorem C04_faultfree : forall i o, (forall x, t_fails i x = false) ->
  delivered i o = has (t_src i) o && negb (t_verify i && t_corrupt i o).
Proof. exact delivered_faultfree. Qed.
Print Assumptions C04_faultfree.

(* "for all first rounds": whatever the first round did and wherever it was killed, the
   destination it leaves is a legal start ([wf]) for the retry of the same request (index-free
   retry; with an index the additional premise is C12's index soundness; after non-atomic
   uploads a truncated leftover counts as present for status, so atomicity is a premise here) *)
Theorem C04_retry_after_any_round : forall i1 n i2,
  wf i1 ->
  t_src i2 = t_src i1 -> t_cache i2 = t_cache i1 -> t_parse i2 = t_parse i1 ->
  t_req i2 = t_req i1 -> t_shallow i2 = t_shallow i1 ->
  t_dst i2 = w_dst (killed_world i1 n) -> t_dix i2 = None ->
  ord_ok (t_bord i2) -> ord_ok (t_dord i2) -> trunc_unparsable i2 ->
  (forall o b, ~ In (Partial o b) (o_events (transfer i1))) ->      (* atomic uploads in the first round *)
  wf i2.
Proof. exact retry_wf. Qed.
Print Assumptions C04_retry_after_any_round.

(* the oracles the harness builds from what it observed are admissible *)
Theorem C04_observed_orders_admissible : forall p, ord_ok (by_priority p).
Proof. exact by_priority_ok. Qed.
Print Assumptions C04_observed_orders_admissible.

(* ---- the tie to the source text ------------------------------------------------------------
   Gen/TransferGen.v is regenerated on every run from hashfile/transfer.py by symbolic execution
   (translator/transferunit.py, fail-closed on unknown statement shapes).  The model's directory
   loop makes the decisions of the source: *)
Theorem C04_source_dir_step : forall i missing D entries files failed,
  let g := g_dir_step (add_events i) (add_failed i) missing D entries files failed in
  let m := dir_step i missing D entries files failed in
  fst (fst (fst g)) = fst (fst (fst m)) /\ snd (fst (fst g)) = snd (fst (fst m)) /\ snd g = snd m /\
  (forall o, In o (snd (fst g)) <-> In o (snd (fst m))).
Proof. exact gen_dir_step_ok. Qed.
Print Assumptions C04_source_dir_step.

Theorem C04_source_finish : forall i new missing,
  let r := dir_loop i missing (t_dord i (filter is_dir_oid new)) (filter is_file_oid new) [] in
  d_ok r = true ->
  let g := g_finish (add_events i) (add_failed i) [SrcIndexClear]
             (fun succ => if t_dnoop i then [] else map (fun p => IndexUpdate (fst p) (snd p)) succ)
             (d_events r) (d_files r) (d_failed r) (d_succ r) in
  fst (do_transfer i new missing) = fst g /\
  exists fl, snd (do_transfer i new missing) = Some fl /\ forall o, In o fl <-> In o (snd g).
Proof. exact gen_finish_ok. Qed.
Print Assumptions C04_source_finish.

Theorem C04_source_split_and_lookup : forall i new missing D,
  dir_loop i missing (t_dord i (g_split_dirs is_dir_oid new)) (g_split_files is_dir_oid new) [] =
  dir_loop i missing (t_dord i (filter is_dir_oid new)) (filter is_file_oid new) [] /\
  find_tree i D = first_some i g_find_order D.
Proof. intros. split; [apply gen_split_ok|apply gen_find_order_ok]. Qed.
Print Assumptions C04_source_split_and_lookup.

(* _add._error: with a single writer every upload error counts as a failure *)
Theorem C04_source_error_counts : forall is_permission_error, g_error_counts is_permission_error false = true.
Proof. exact gen_error_single_writer. Qed.
Print Assumptions C04_source_error_counts.
