(* C14 - Hashing is correct, chunking-independent, and a faithful pass-through.
   Only statements here; proofs in Proofs/HashStreamProofs.v, HashStreamProofs2.v, HashStreamProofs3.v.

   The model: Gen/Hash.v is GENERATED from the current source on every run (istextblock, dos2unix,
   HashStreamFile.read, Dos2UnixHashStreamFile.read); Base/PyStream.v is the environment (a file
   object with a short-read oracle [fo_cuts], a hasher that is the list of bytes fed - the
   hashlib contract "update appends, hexdigest = H fed"); Model/HashStream.v is the hand-written
   driver loop of fobj_md5, consumers with explicit read sizes, algorithm selection, hash_file.
   The digest is abstract: [digest H s = H (hs_hasher s)] for an arbitrary H.

   Deviations from DESIGN section 6, C14:
   * C14_chunking is stated for a consumer [drive_seq] reading with an arbitrary sequence of
     non-zero sizes until an empty chunk (fobj_md5 = the constant sequence, C14_fobj_md5), and
     additionally for every short-read behaviour of the underlying file object.
   * C14_crlf_lf needs no hypothesis for the CRLF side beyond the sniff (dos2unix (unix2dos u) = u
     holds for all u, C14_unix2dos_inverse); [no_crlf u] is what makes the LF side hash to H u.
   * C14_binary: the file-level statement ("the first 512 bytes of the content are not text ->
     the digest is H content") is REFUTED by the faithful model for contents of more than one
     read (C14_binary_refuted; the same input reproduces on the implementation: every chunk is
     sniffed on its own).  Proved instead: C14_binary_partial (content that fits in one read) and
     C14_binary_chunks (any chunking, every chunk sniffed binary or free of CR LF).
   * C14_text_ratio uses the kernel's primitive floats (evaluated by vm_compute only; no
     float axiom is used). *)
From Coq Require Import NArith ZArith List Bool.
From DvcData Require Import Base.Val Base.PyBase Base.PyStream Gen.Hash Model.HashStream Proofs.HashStreamProofs Proofs.HashStreamProofs2 Proofs.HashStreamProofs3 Proofs.HashStreamProofs4 Proofs.HashStreamMD5.
Import ListNotations.
Open Scope N_scope.

(* ---- chunking independence, plain streams *)

(* every content, every short-read oracle, every sequence of non-zero read sizes long enough to
   reach the end: the hasher has been fed exactly the content, the chunks handed on concatenate
   to the content, the counter is its length *)
Theorem C14_chunking : forall content cuts ns,
  Forall (fun n => n <> 0%Z) ns -> (length content < length ns)%nat ->
  exists s' ch,
    drive_seq false ns (init_stream content cuts) [] = DriveOk s' ch /\
    hs_hasher s' = content /\ concat ch = content /\ hs_total_read s' = len content /\
    fo_rest (hs_fobj s') = [] /\ Forall (fun c => c <> []) ch.
Proof. exact chunking. Qed.
Print Assumptions C14_chunking.

(* hence the digest does not depend on the chunking, for any digest function H *)
Theorem C14_digest_independent : forall (H : list N -> list N) content cuts1 cuts2 ns1 ns2 s1 c1 s2 c2,
  Forall (fun n => n <> 0%Z) ns1 -> Forall (fun n => n <> 0%Z) ns2 ->
  (length content < length ns1)%nat -> (length content < length ns2)%nat ->
  drive_seq false ns1 (init_stream content cuts1) [] = DriveOk s1 c1 ->
  drive_seq false ns2 (init_stream content cuts2) [] = DriveOk s2 c2 ->
  digest H s1 = H content /\ digest H s2 = H content /\ concat c1 = concat c2.
Proof. exact digest_independent. Qed.
Print Assumptions C14_digest_independent.

(* the driver loop of fobj_md5 for every name that selects the plain class, every chunk size <> 0 *)
Theorem C14_fobj_md5 : forall name chunk content cuts,
  picks_dos2unix name = false -> chunk <> 0%Z ->
  exists s' ch,
    fobj_md5 name chunk content cuts = DriveOk s' ch /\
    hs_hasher s' = content /\ concat ch = content /\
    hs_total_read s' = len content /\ Forall (fun c => c <> []) ch.
Proof. exact fobj_md5_plain. Qed.
Print Assumptions C14_fobj_md5.

Theorem C14_fobj_md5_is_drive_seq : forall d2u chunk fuel s acc,
  drive d2u chunk fuel s acc = drive_seq d2u (repeat chunk fuel) s acc.
Proof. exact drive_is_seq. Qed.
Print Assumptions C14_fobj_md5_is_drive_seq.

(* a consumer that stops early (any sizes, also 0 and negative): what has been hashed and counted
   is exactly what has been handed on, and nothing of the content is lost *)
Theorem C14_prefix : forall ns s acc s' ch,
  reads false s ns acc = Some (s', ch) ->
  exists got, ch = rev acc ++ got /\
    concat got ++ fo_rest (hs_fobj s') = fo_rest (hs_fobj s) /\
    hs_hasher s' = hs_hasher s ++ concat got /\
    hs_total_read s' = hs_total_read s + len (concat got).
Proof. exact reads_plain. Qed.
Print Assumptions C14_prefix.

(* hash_file: an available plain algorithm digests exactly the file's bytes; an unlisted name
   (membership is exact-case) is refused *)
Theorem C14_hash_file : forall avail name content,
  name_available avail name = true -> picks_dos2unix name = false ->
  exists s' ch, hash_file avail name content = HfOk name (DriveOk s' ch) /\
                hs_hasher s' = content /\ concat ch = content /\ hs_total_read s' = len content.
Proof. exact hash_file_plain. Qed.
Print Assumptions C14_hash_file.

Theorem C14_hash_file_unavailable : forall avail name content,
  name_available avail name = false -> hash_file avail name content = HfNotImplemented.
Proof. exact hash_file_unavailable. Qed.
Print Assumptions C14_hash_file_unavailable.

(* ---- pass-through, both stream classes *)

(* one read returns literally what the file object returned and leaves the file object in the
   state the bare read leaves it *)
Theorem C14_passthrough : forall d2u s n data s',
  stream_read d2u s n = Some (data, s') ->
  data = fst (fobj_read (hs_fobj s) n) /\ hs_fobj s' = snd (fobj_read (hs_fobj s) n).
Proof. exact read_passthrough. Qed.
Print Assumptions C14_passthrough.

(* a whole read sequence through either class is indistinguishable, for the consumer and for the
   file, from the same sequence on the bare file object *)
Theorem C14_transparent : forall d2u ns s s' ch,
  reads d2u s ns [] = Some (s', ch) ->
  ch = fst (fobj_reads (hs_fobj s) ns) /\ hs_fobj s' = snd (fobj_reads (hs_fobj s) ns).
Proof. exact reads_transparent0. Qed.
Print Assumptions C14_transparent.

Theorem C14_no_loss : forall d2u ns s s' ch,
  reads d2u s ns [] = Some (s', ch) -> concat ch ++ fo_rest (hs_fobj s') = fo_rest (hs_fobj s).
Proof. exact reads_no_loss. Qed.
Print Assumptions C14_no_loss.

(* the plain stream counts and hashes exactly the chunk *)
Theorem C14_counts : forall s n data s',
  stream_read false s n = Some (data, s') ->
  hs_hasher s' = hs_hasher s ++ data /\ hs_total_read s' = hs_total_read s + len data.
Proof. exact plain_read_counts. Qed.
Print Assumptions C14_counts.

(* ---- histories on one stream object: reads interleaved with hash_value / total_read queries *)

(* plain class, any history (any read sizes, any short reads, queries anywhere): every answer is
   about exactly the chunks handed out before it - fed (what the digest is a function of) is
   their concatenation, total_read its length - those chunks are a prefix of everything handed
   out, the final state likewise, and nothing of the content is lost *)
Theorem C14_history : forall content cuts ops s' ch answers,
  run_ops false (init_stream content cuts) ops [] [] = Some (s', ch, answers) ->
  Forall (fun a => let '(pre, fed, total) := a in
                   fed = concat pre /\ total = len (concat pre) /\ exists tl, ch = pre ++ tl) answers /\
  hs_hasher s' = concat ch /\ hs_total_read s' = len (concat ch) /\
  concat ch ++ fo_rest (hs_fobj s') = content.
Proof. exact history_plain. Qed.
Print Assumptions C14_history.

(* either class: an answer is the per-chunk feed ([hashed true] = d2u_data, [hashed false] = id)
   of the chunks handed out before it, and its count *)
Theorem C14_history_any : forall d2u content cuts ops s' ch answers,
  run_ops d2u (init_stream content cuts) ops [] [] = Some (s', ch, answers) ->
  Forall (fun a => let '(pre, fed, total) := a in
                   fed = concat (map (hashed d2u) pre) /\ total = len fed /\ exists tl, ch = pre ++ tl) answers /\
  hs_hasher s' = concat (map (hashed d2u) ch) /\ hs_total_read s' = len (hs_hasher s') /\
  concat ch ++ fo_rest (hs_fobj s') = content.
Proof. exact history. Qed.
Print Assumptions C14_history_any.

(* asking is invisible: the same history without its queries hands out the same chunks and ends
   in the same state *)
Theorem C14_queries_invisible : forall d2u ops s acc ans s' ch answers,
  run_ops d2u s ops acc ans = Some (s', ch, answers) ->
  exists answers', run_ops d2u s (filter is_read ops) acc [] = Some (s', ch, answers').
Proof. exact queries_invisible. Qed.
Print Assumptions C14_queries_invisible.

(* ---- the legacy text-normalising stream *)

Theorem C14_lf_fix : forall u, no_crlf u = true -> dos2unix u = u.
Proof. exact dos2unix_fix. Qed.
Print Assumptions C14_lf_fix.

Theorem C14_unix2dos_inverse : forall u, dos2unix (unix2dos u) = u.
Proof. exact dos2unix_unix2dos. Qed.
Print Assumptions C14_unix2dos_inverse.

(* CRLF and LF variants of a text that fits in one read: both hash to H u, both are handed on
   unaltered *)
Theorem C14_crlf_lf : forall u n,
  no_crlf u = true -> (512 <= n)%Z -> (Z.of_nat (length (unix2dos u)) <= n)%Z ->
  istextblock (firstn 512 (unix2dos u)) = true ->
  exists s1 c1 s2 c2,
    fobj_md5 s_md5_dos2unix n (unix2dos u) [] = DriveOk s1 c1 /\
    fobj_md5 s_md5_dos2unix n u [] = DriveOk s2 c2 /\
    hs_hasher s1 = u /\ hs_hasher s2 = u /\
    concat c1 = unix2dos u /\ concat c2 = u.
Proof. exact crlf_lf. Qed.
Print Assumptions C14_crlf_lf.

(* LF -> CR LF keeps a text a text (the sniffing window of the CRLF variant is still text), so
   the theorem can be stated on the LF text alone: a text without CR LF that fits, as CRLF
   variant, in one read has one digest in both variants, H u *)
Theorem C14_text_stable : forall u,
  istextblock (firstn 512 u) = true -> istextblock (firstn 512 (unix2dos u)) = true.
Proof. exact text_window_stable. Qed.
Print Assumptions C14_text_stable.

Theorem C14_crlf_lf_text : forall u n,
  no_crlf u = true -> istextblock (firstn 512 u) = true ->
  (512 <= n)%Z -> (Z.of_nat (length (unix2dos u)) <= n)%Z ->
  exists s1 c1 s2 c2,
    fobj_md5 s_md5_dos2unix n (unix2dos u) [] = DriveOk s1 c1 /\
    fobj_md5 s_md5_dos2unix n u [] = DriveOk s2 c2 /\
    hs_hasher s1 = u /\ hs_hasher s2 = u /\
    concat c1 = unix2dos u /\ concat c2 = u.
Proof. exact crlf_lf_text. Qed.
Print Assumptions C14_crlf_lf_text.

(* binary content that fits in one read is hashed untouched *)
Theorem C14_binary_partial : forall b n,
  istextblock (firstn 512 b) = false -> (512 <= n)%Z -> (Z.of_nat (length b) <= n)%Z ->
  exists s' ch, fobj_md5 s_md5_dos2unix n b [] = DriveOk s' ch /\ hs_hasher s' = b /\ concat ch = b.
Proof. exact binary_single. Qed.
Print Assumptions C14_binary_partial.

(* any chunking (sizes >= 512, any short reads): everything is handed on; the hasher receives
   the per-chunk normalisation; if every chunk is sniffed binary or has no CR LF the content is
   hashed untouched *)
Theorem C14_binary_chunks : forall content cuts ns,
  Forall (fun n => (512 <= n)%Z) ns -> (length content < length ns)%nat ->
  exists s' ch,
    drive_seq true ns (init_stream content cuts) [] = DriveOk s' ch /\
    concat ch = content /\ Forall (fun c => c <> []) ch /\ fo_rest (hs_fobj s') = [] /\
    hs_hasher s' = concat (map d2u_data ch) /\
    (Forall (fun c => istextblock (firstn 512 c) = false \/ no_crlf c = true) ch -> hs_hasher s' = content).
Proof. exact d2u_untouched_chunks. Qed.
Print Assumptions C14_binary_chunks.

(* the full statement
     forall content n cuts, 512 <= n -> istextblock (firstn 512 content) = false ->
       fobj_md5 "md5-dos2unix" n content cuts = DriveOk s' ch -> hs_hasher s' = content
   does not hold: 512 NUL bytes followed by "a\r\nb", read size 512 *)
Theorem C14_binary_refuted :
  exists content n,
    (512 <= n)%Z /\ istextblock (firstn 512 content) = false /\
    exists s' ch, fobj_md5 s_md5_dos2unix n content [] = DriveOk s' ch /\
                  concat ch = content /\ hs_hasher s' <> content.
Proof. exact binary_file_level_refuted. Qed.
Print Assumptions C14_binary_refuted.

(* the legacy stream refuses reads below the sniffing window (AssertionError) *)
Theorem C14_legacy_small_read : forall s n, (n < 512)%Z -> stream_read true s n = None.
Proof. exact d2u_read_small. Qed.
Print Assumptions C14_legacy_small_read.

(* the IEEE-754 division and comparison of the source decide exactly 10 * nontext <= 3 * len for
   every block that fits the sniffing window (exhaustive sweep over all 131 841 pairs
   0 <= nontext <= len <= 512, lifted by forallb_forall) *)
Theorem C14_text_ratio : forall b, (length b <= 512)%nat ->
  istextblock b =
  match b with
  | [] => true
  | _ => negb (bytes_contains [0] b) && (10 * len (nontext b) <=? 3 * len b)
  end.
Proof. exact istextblock_spec. Qed.
Print Assumptions C14_text_ratio.

(* ---- algorithm names: case-insensitive exactly where the source lower-cases *)

Theorem C14_names : forall name name',
  (lower name = lower name' -> hasher_alg name = hasher_alg name') /\
  hasher_alg (lower name) = hasher_alg name /\
  (lower name = s_md5_dos2unix -> hasher_alg name = s_md5) /\
  (lower name <> s_md5_dos2unix -> hasher_alg name = lower name) /\
  (picks_dos2unix name = true <-> name = s_md5_dos2unix).
Proof. exact names_all. Qed.
Print Assumptions C14_names.
