(* C16 - Concurrent writers cannot corrupt a shared store or state database.
   Only statements here; proofs are in Proofs/ConcurrentProofs.v, the model in Model/Concurrent.v.

   Model: N writers (N arbitrary), each a program = list of atomic steps over ONE world
   (final names id |-> bytes + protected, writer-private temps, state rows); a schedule is a
   list of writer indices, [run] interleaves; [legal] is the (boolean) protocol discipline of
   one writer for its workload (list of (id, bytes), directory object last); [valid_trace] is
   what the harness evaluates on every recorded real execution (cooperative scheduler).
   Everything below is unbounded in the number of writers, the workloads, the programs and
   the schedule.

   Deviation from DESIGN section 6 (explained, not hidden): the invariant "a non-temporary name
   only ever receives, by atomic rename, a complete file; a state row only records the token of
   such a file" is FALSE of the real code: transfer() decides "new" in compare_status and then
   adds with check_exists=False, and dvc_objects' reflink attempt does
   open(FINAL NAME, O_WRONLY|O_CREAT|O_TRUNC) + unlink - under concurrency this truncates and
   removes an object another writer has already completed (and, for a non-root user, fails with
   EACCES on a protected object: outside this model, see the harness' non-root scenario).
   [C16_naive_invariant_refuted] and [C16_state_row_can_record_a_probe] are the witnesses (both
   reproduced on the implementation by the scheduler).  The invariant that IS preserved by each
   step of any writer is [Inv]: "whoever destroys a name still owes its re-creation by an atomic
   rename of a complete private temp; whoever places a file owes its protection; temps only ever
   hold requested (id, bytes) pairs; rows only name requested ids".  It collapses, when every
   program has run to completion, to the statement of the property. *)
From Coq Require Import NArith List Bool.
From DvcData Require Import Base.Val Model.Concurrent Gen.DbAdd Proofs.ConcurrentProofs Proofs.ConcurrentVerify Proofs.ConcurrentTie.
Import ListNotations.
Open Scope N_scope.

(* the invariant is preserved by EACH step of ANY writer (i, s arbitrary; s enabled) *)
Theorem C16_step_invariant : forall loc wls w ps i s rest w',
  Inv loc wls w ps -> nth_error ps i = Some (s :: rest) -> exec (nth i wls []) i s w = Some w' ->
  Inv loc wls w' (upd i rest ps).
Proof. exact step_inv. Qed.
Print Assumptions C16_step_invariant.

(* it holds initially for every family of legal programs, hence along every run *)
Theorem C16_invariant_always : forall loc wls ps sched w' ps',
  legal_all loc wls ps = true -> run wls sched w0 ps = Some (w', ps') -> Inv loc wls w' ps'.
Proof. intros. eapply run_inv; [apply inv_init|]; eauto. Qed.
Print Assumptions C16_invariant_always.

(* for ALL schedules that run ALL programs to completion, for ALL workloads: the final store
   contains every requested id with exactly the requested bytes (complete), protected iff the
   store is local; contains nothing else; and every state row names a requested id whose
   object is present and complete *)
Theorem C16_any_schedule : forall loc wls ps sched w' ps',
  consistent wls -> legal_all loc wls ps = true ->
  run wls sched w0 ps = Some (w', ps') -> all_done ps' = true ->
  (forall o b, In (o, b) (all_items wls) ->
      exists f, oget o (w_objs w') = Some f /\ f_bytes f = b /\ f_prot f = loc) /\
  (forall o f, oget o (w_objs w') = Some f -> In (o, f_bytes f) (all_items wls) /\ f_prot f = loc) /\
  (forall o n, In (o, n) (w_rows w') ->
      exists f b, In (o, b) (all_items wls) /\ oget o (w_objs w') = Some f /\ f_bytes f = b).
Proof. exact any_schedule. Qed.
Print Assumptions C16_any_schedule.

(* every object is correctly named, for any hash under which the requests are *)
Theorem C16_named_ok : forall (H : bytes -> oid) loc wls ps sched w' ps',
  consistent wls -> named H wls -> legal_all loc wls ps = true ->
  run wls sched w0 ps = Some (w', ps') -> all_done ps' = true ->
  forall o f, oget o (w_objs w') = Some f -> H (f_bytes f) = o.
Proof.
  intros H loc wls ps sched w' ps' Hc Hn Hl Hr Hd. eapply final_named_ok; eauto.
  eapply any_schedule; eauto.
Qed.
Print Assumptions C16_named_ok.

(* each writer's directory object = the listing of exactly what that writer staged, and all
   its files are there (H, the listing serialisation and the directory-id function abstract) *)
Theorem C16_directory_object : forall (H : bytes -> oid) (ser : list (list N * oid) -> bytes) (dirid : bytes -> oid)
    loc (wkls : list (list (list N * bytes))) ps sched w' ps',
  consistent (map (items_of H ser dirid) wkls) ->
  legal_all loc (map (items_of H ser dirid) wkls) ps = true ->
  run (map (items_of H ser dirid) wkls) sched w0 ps = Some (w', ps') -> all_done ps' = true ->
  forall wl, In wl wkls ->
    view w' (dirid (ser (entries H wl))) = Some (ser (entries H wl), loc) /\
    forall n b, In (n, b) wl -> view w' (H b) = Some (b, loc).
Proof. exact directory_object. Qed.
Print Assumptions C16_directory_object.

(* the outcome does not depend on the interleaving (nor on which legal programs the writers
   followed, i.e. on what they happened to observe): it is [expected], a function of the workloads *)
Theorem C16_final_is_expected : forall loc wls ps sched w' ps',
  consistent wls -> legal_all loc wls ps = true ->
  run wls sched w0 ps = Some (w', ps') -> all_done ps' = true ->
  forall o, view w' o = expected loc wls o.
Proof. intros. eapply view_expected; eauto. eapply any_schedule; eauto. Qed.
Print Assumptions C16_final_is_expected.

Theorem C16_order_irrelevant : forall loc wls ps1 ps2 s1 s2 w1 w2 q1 q2,
  consistent wls -> legal_all loc wls ps1 = true -> legal_all loc wls ps2 = true ->
  run wls s1 w0 ps1 = Some (w1, q1) -> all_done q1 = true ->
  run wls s2 w0 ps2 = Some (w2, q2) -> all_done q2 = true ->
  forall o, view w1 o = view w2 o.
Proof. exact order_irrelevant. Qed.
Print Assumptions C16_order_irrelevant.

(* the checker run on every recorded real trace is sound *)
Theorem C16_valid_trace_sound : forall loc wls tr, consistent wls -> valid_trace loc wls tr = true ->
  exists w ps', final_of wls tr = Some (w, ps') /\ good_final loc wls w /\
                forall o, view w o = expected loc wls o.
Proof. exact valid_trace_sound. Qed.
Print Assumptions C16_valid_trace_sound.

(* the same from a PRE-POPULATED store (some requested objects already present, complete,
   protected iff local): final store and soundness of the checker the harness evaluates *)
Theorem C16_any_schedule_prepopulated : forall loc wls pre ps sched w' ps',
  consistent wls -> (forall o b, In (o, b) pre -> In (o, b) (all_items wls)) ->
  legal_all loc wls ps = true ->
  run wls sched (pre_world loc pre) ps = Some (w', ps') -> all_done ps' = true ->
  good_final loc wls w' /\ forall o, view w' o = expected loc wls o.
Proof.
  intros. assert (G : good_final loc wls w') by (eapply any_schedule_pre; eauto).
  split; auto. apply view_expected; auto.
Qed.
Print Assumptions C16_any_schedule_prepopulated.

Theorem C16_valid_trace_pre_sound : forall loc wls pre tr,
  consistent wls -> valid_trace_pre loc wls pre tr = true ->
  exists w ps', final_of_pre loc wls pre tr = Some (w, ps') /\ good_final loc wls w /\
                forall o, view w o = expected loc wls o.
Proof. exact valid_trace_pre_sound. Qed.
Print Assumptions C16_valid_trace_pre_sound.

(* the design's simple invariant is refuted by the faithful model: in an ACCEPTED trace of two
   writers with the same file, the object is complete and protected after 10 events and EMPTY
   (still protected) after the 11th, writer 1's reflink probe *)
Theorem C16_naive_invariant_refuted :
  valid_trace true [ex_its; ex_its] ex_tr = true /\
  (exists w ps, run [ex_its; ex_its] (map fst (firstn 10 ex_tr)) w0 (project 2 ex_tr) = Some (w, ps) /\
                view w ex_o = Some (ex_b, true)) /\
  (exists w ps, run [ex_its; ex_its] (map fst (firstn 11 ex_tr)) w0 (project 2 ex_tr) = Some (w, ps) /\
                view w ex_o = Some ([], true)).
Proof. split; [exact ex_two_writers_valid|split; [exact ex_complete_before_probe|exact ex_probe_destroys]]. Qed.
Print Assumptions C16_naive_invariant_refuted.

(* ... and a state row can record the token of another writer's empty probe file *)
Theorem C16_state_row_can_record_a_probe :
  legal_all true [ex_its; ex_its] [ex_prog; ex_prog] = true /\
  exists w ps, run [ex_its; ex_its] ex_sched_row w0 [ex_prog; ex_prog] = Some (w, ps) /\
               w_rows w = [(ex_o, 2)] /\ oget ex_o (w_objs w) = Some (mkfile 2 [] true).
Proof. exact ex_row_of_probe. Qed.
Print Assumptions C16_state_row_can_record_a_probe.

(* ---- verify=True (transfer(..., verify=True)): the post-add verification step [VerifyOk]/[VerifyDrop]
   of the extended machine [vrun]; a vworld carries the (writer, id) pairs reported failed.

   Full statement "all writers succeed" = no id is ever reported failed.  It holds when no writer
   verifies (the extended machine is then the proved one) ... *)
Theorem C16_no_verify_all_succeed : forall loc wls ps sched w' fl q,
  consistent wls -> legal_all loc wls ps = true ->
  vrun loc wls sched (w0, []) (lift ps) = Some ((w', fl), q) -> vdone q = true ->
  fl = [] /\ good_final loc wls w' /\ forall o, view w' o = expected loc wls o.
Proof. exact no_verify_all_succeed. Qed.
Print Assumptions C16_no_verify_all_succeed.

(* ... and is REFUTED with verification, for both store classes: writer 0 (verify=True) places the
   object, writer 1's reflink probe truncates it, writer 0's own post-add verification reads the
   empty file, reports the object failed and removes it - while writer 1 re-creates it, so the
   final store is complete.  Witness by vm_compute; the same grant sequence reproduces on the
   implementation (harness signature C16:root:verify-sees-probe-truncated-object). *)
Theorem C16_verify_all_succeed_refuted : forall loc,
  exists w q,
    legal_all loc [ex_its; ex_its] [ex_prog_of loc; ex_prog_of loc] = true /\
    vrun loc [ex_its; ex_its] vex_sched (w0, []) [vex_a; map Base (ex_prog_of loc)]
      = Some ((w, [(0%nat, ex_o)]), q) /\
    vdone q = true /\ view w ex_o = Some (ex_b, loc).
Proof. exact verify_all_succeed_refuted. Qed.
Print Assumptions C16_verify_all_succeed_refuted.

(* worse variant (the check is read-then-remove, two system calls): when the remove is delayed until the
   prober has re-created the object, it deletes the complete object; the writer that re-created it ran
   its whole legal program and reported no failure, yet the object is absent from the final store
   (harness signature C16:root:verify-drop-removes-recreated-object) *)
Theorem C16_verify_store_incomplete_refuted : forall loc,
  exists w fl q,
    vrun loc [ex_its; ex_its] vex_sched_lost (w0, []) [vex_a; map Base (ex_prog_of loc)] = Some ((w, fl), q) /\
    vdone q = true /\ fl = [(0%nat, ex_o)] /\ view w ex_o = None.
Proof. exact verify_store_incomplete_refuted. Qed.
Print Assumptions C16_verify_store_incomplete_refuted.

(* a writer may stage a directory WITHOUT files: its workload is just the directory object of the empty
   listing, and that object is in the final store like any other ([C16_any_schedule] and
   [C16_directory_object] never ask for a non-empty file list; this is the instance) *)
Theorem C16_empty_workload : forall (H : bytes -> oid) (ser : list (list N * oid) -> bytes) (dirid : bytes -> oid)
    loc (wkls : list (list (list N * bytes))) ps sched w' ps',
  consistent (map (items_of H ser dirid) wkls) ->
  legal_all loc (map (items_of H ser dirid) wkls) ps = true ->
  run (map (items_of H ser dirid) wkls) sched w0 ps = Some (w', ps') -> all_done ps' = true ->
  In [] wkls ->
  items_of H ser dirid [] = [(dirid (ser []), ser [])] /\
  view w' (dirid (ser [])) = Some (ser [], loc).
Proof. exact empty_workload. Qed.
Print Assumptions C16_empty_workload.

(* ---- tie to HashFileDB.add as the translator reads it on every run (Gen/DbAdd.v, unit "dbadd").
   [g_add] interprets the generated add_order / post_body / save_over over the step machine (copies =
   dvc_objects' probe + private temp + atomic rename).  Whatever the workload and whether or not the add
   verifies, that program is a LEGAL writer program for a local store: copy -> [check] -> chmod -> ONE
   state upsert at the end is the discipline all C16 theorems assume - so they apply to it. *)
Theorem C16_generated_add_is_legal : forall verify (its : items),
  g_add verify (map fst its) =
    map Mkdir (map prefix (map fst its)) ++ g_copies 0 (map fst its) ++ g_post verify (map fst its) ++
    [StateUpsert (map fst its)] /\
  legal true its (g_add verify (map fst its)) = true.
Proof. intros; split; [apply g_add_shape|apply g_add_legal]. Qed.
Print Assumptions C16_generated_add_is_legal.

Theorem C16_generated_add_any_schedule : forall verify wls sched w' ps',
  consistent wls ->
  run wls sched w0 (map (fun its => g_add verify (map fst its)) wls) = Some (w', ps') -> all_done ps' = true ->
  good_final true wls w' /\ forall o, view w' o = expected true wls o.
Proof.
  intros verify wls sched w' ps' Hc Hr Hd.
  assert (G : good_final true wls w').
  { eapply any_schedule; eauto. apply g_add_writers_legal. }
  split; auto. apply view_expected; auto.
Qed.
Print Assumptions C16_generated_add_any_schedule.

(* the verification step of the extended machine is what the generated post loop says: the check comes
   before the chmod, ObjectFormatError is REPORTED ([VerifyBad] then the remove [VerifyDrop]),
   FileNotFoundError is PASSED ([VerifyOk] on an absent name), the pre-add check swallows both, the
   per-call flag wins over the store's *)
Theorem C16_generated_verify_handlers : forall o,
  post_body true = [PCheck true; PProtect] /\ post_body false = [PProtect] /\
  g_check o (Some ExcObjectFormat) = [VerifyBad o; VerifyDrop o] /\
  g_check o (Some ExcFileNotFound) = [VerifyOk o] /\
  forallb (fun e => existsb (exc_eqb e) pre_swallows) [ExcObjectFormat; ExcFileNotFound] = true /\
  pre_runs true = true /\ pre_runs false = false /\ copy_reports = true.
Proof. exact tie_verify_handlers. Qed.
Print Assumptions C16_generated_verify_handlers.

Theorem C16_generated_verify_flag : forall v s,
  eff_verify (Some v) s = v /\ eff_verify None s = s /\ store_verify None = false.
Proof. exact tie_eff_verify. Qed.
Print Assumptions C16_generated_verify_flag.

(* OBSERVATION, outside C16's quantifier (C16 is about fault-free writers): a fact about the FAULTED machine.
   A writer whose copy fails after its reflink attempt stops after [ProbeUnlink] - its program is not [legal] -
   and the complete object the other writer placed is then absent from the final store although that writer
   ran its whole legal program.  It shows that the hypothesis [legal] ("who destroys a name re-creates it")
   of the theorems above cannot be dropped.  Same root cause as the two known probe findings; seen on the
   implementation with one injected EIO (evidence: observations). *)
Theorem C16_observation_failed_prober_loses_object : forall loc,
  legal loc ex_its fex_failed = false /\ legal loc ex_its (ex_prog_of loc) = true /\
  exists w ps, run [ex_its; ex_its] fex_sched w0 [fex_failed; ex_prog_of loc] = Some (w, ps) /\
               all_done ps = true /\ view w ex_o = None.
Proof. exact failed_prober_loses_object. Qed.
Print Assumptions C16_observation_failed_prober_loses_object.
