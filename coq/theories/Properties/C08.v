(* C08 - Index diff is exact: every key once, correctly classified, renames paired.
   Only statements here.  Model: Model/Trie.v (index = association list key |-> entry; info / ls of
   DataIndex), Model/IndexDiff.v (the queue of `_diff`, `_detect_renames`, `diff`, and the flat
   reference [ref_diff]); the deciders `_diff_meta`, `_diff_hash_info`, `_diff_entry` are the
   GENERATED ones of Gen/IDiff.v over the generated records of Gen/PyTypes.v.  Proofs:
   Proofs/IndexDiffProofsBase.v (trie, decider table), IndexDiffBfs.v (closed form of the queue),
   IndexDiffRefine.v (refinement, self diff, swap, shortcut), IndexDiffRenames.v, IndexDiffShallow.v
   (closed form for any options, shallow = True), IndexDiffSwapRen.v (swap composed with rename
   detection), IndexDiffExamples.v / IndexDiffExamples2.v (non-vacuity: a concrete pair of indexes
   satisfying WfO / HashConsistent with a 7-change diff; its shallow and swapped-rename runs).

   Vocabulary.  [diff_core o old new fuel] is `_diff` (None = out of fuel; [fuel_for old new] always
   suffices for shallow = False), [diff] adds `with_renames` / `assert not meta_only`.  [≡ₚ] is
   [Permutation]: the order in which a Python set is iterated is not part of the statement.
   [WfO i]: every strict prefix of a valued key is value-less or a directory entry.
   [HashConsistent old new]: where old and new carry the same non-empty `.dir` hash at a key, all keys
   below have hash-equal entries (holds when directory hashes are collision-free digests of the
   children; demanded only when the shortcut can fire, [shortcut_on o]).

   Deviations from DESIGN section 6, C08:
   * C08_refines / C08_no_hiding are for shallow = False (the DESIGN's scope note).  For shallow = True
     (indeed for any options) C08_shallow proves: every key that is not below a hashed entry is
     reported exactly once and exactly as the flat reference classifies it, no key is reported twice
     at all (C08_keys_once_gen: any indexes, any options), and a top-level entry whose hash differs is
     always reported (C08_shallow_hash_change_reported).  Below a hashed entry shallow runs are
     deliberately inexact (children of a cut side are compared against "absent"); nothing is claimed there.
   * C08_swap_gen / C08_swap_renames_gen hold for any options and arbitrary - also ill-formed - indexes
     (C08_swap / C08_swap_renames are their shallow = False instances, kept).
   * attrs equality compares the eq=True fields only, so "equal" below is [meta_eqb] / [hashinfo_eqb]
     (equality of those fields), not Leibniz equality of the records.
   * `with_unknown` and lazy loading through a storage map are outside the model; `roots` other than [()]
     is in the model: C08_roots_closed / _multi / _exact (shallow = False), C08_roots_closed_gen /
     _keys_once_gen / _shallow (any options); overlapping roots report a sub-tree once per covering root
     (C08_roots_multi, C08_roots_once_refuted). *)
From Coq Require Import NArith List Bool Permutation.
From DvcData Require Import Base.Val Base.PyBase Gen.PyTypes Gen.IDiff Model.Trie Model.IndexDiff Proofs.IndexDiffProofsBase Proofs.IndexDiffBfs Proofs.IndexDiffRefine Proofs.IndexDiffRenames Proofs.IndexDiffExamples Proofs.IndexDiffShallow Proofs.IndexDiffSwapRen Proofs.IndexDiffRoots Proofs.IndexDiffSwapSh Proofs.IndexDiffRootsSh Proofs.IndexDiffExamples2.
Import ListNotations.
Open Scope N_scope.

(* ---- the per-entry classification table (about the generated text of diff.py 51-137) --------------- *)
(* the generated deciders equal the readable table [spec_diff_*] (Proofs/IndexDiffProofsBase.v) *)
Theorem C08_table :
  (forall old new c, diff_meta old new c = spec_diff_meta old new c) /\
  (forall old new, diff_hash_info old new = spec_diff_hash_info old new) /\
  (forall old new h m c u, diff_entry old new h m c u = spec_diff_entry old new h m c u).
Proof. exact decider_table. Qed.
Print Assumptions C08_table.

(* reflexive; anti-symmetric; Unchanged <-> presence, metadata and hash all agree; hash_only /
   meta_only are the component comparisons (so they hide no change of that component); never
   Rename / Unknown; an Add has a new side and a Delete an old side *)
Theorem C08_table_props :
  (forall e h m c, diff_entry e e h m c false = Unchanged) /\
  (forall a b h m c u, diff_entry b a h m c u = swap_typ (diff_entry a b h m c u)) /\
  (forall a b c, diff_entry a b false false c false = Unchanged <->
     (is_none a = is_none b /\ diff_meta (ent_meta a) (ent_meta b) c = Unchanged /\
      diff_hash_info (ent_hash a) (ent_hash b) = Unchanged)) /\
  (forall a b, diff_meta a b None = Unchanged <-> opt_eqb meta_eqb a b = true) /\
  (forall a b f, diff_meta a b (Some f) = Unchanged <-> (is_none a = is_none b /\ f a = f b)) /\
  (forall a b, diff_hash_info a b = Unchanged <->
     (hi_truthy a = false /\ hi_truthy b = false) \/
     (hi_truthy a = true /\ hi_truthy b = true /\ opt_eqb hashinfo_eqb a b = true)) /\
  (forall a b c, diff_entry a b true false c false = diff_hash_info (ent_hash a) (ent_hash b)) /\
  (forall a b h c, diff_entry a b h true c false = diff_meta (ent_meta a) (ent_meta b) c) /\
  (forall a b h m c, diff_entry a b h m c false <> Rename /\ diff_entry a b h m c false <> Unknown) /\
  (forall a b h m c, (diff_entry a b h m c false = Add -> is_some b = true) /\
                     (diff_entry a b h m c false = Delete -> is_some a = true)).
Proof. exact decider_props. Qed.
Print Assumptions C08_table_props.

(* ---- the breadth-first descent ------------------------------------------------------------------------ *)
(* for ARBITRARY indexes: the queue terminates within [fuel_for] and reports exactly what visiting a
   duplicate-free list of keys (the root and the children of every reached node) yields *)
Theorem C08_closed_form : forall o old new fuel,
  o_shallow o = false -> (fuel_for old new <= fuel)%nat ->
  NoDup (visited o old new) /\
  exists cs, diff_core o old new fuel = Some cs /\
             Permutation cs (flat_map (yield o old new) (visited o old new)).
Proof. intros o old new fuel Hs Hf. split; [apply visited_NoDup | now apply diff_core_closed]. Qed.
Print Assumptions C08_closed_form.

(* refinement to the flat key-by-key reference: every key that has an entry on either side is
   reported exactly once (including unchanged entries when requested), classified as the
   dictionary comparison dictates - file on one side and directory on the other, one side absent,
   implicit directories included *)
Theorem C08_refines : forall o old new fuel,
  o_shallow o = false -> WfO old -> WfO new -> (shortcut_on o = true -> HashConsistent old new) ->
  (fuel_for old new <= fuel)%nat ->
  exists cs, diff_core o old new fuel = Some cs /\ Permutation cs (ref_diff o old new).
Proof. exact diff_refines. Qed.
Print Assumptions C08_refines.

Theorem C08_keys_once : forall o old new fuel cs,
  o_shallow o = false -> WfO old -> WfO new -> (shortcut_on o = true -> HashConsistent old new) ->
  (fuel_for old new <= fuel)%nat -> diff_core o old new fuel = Some cs ->
  NoDup (map change_key cs).
Proof. exact diff_keys_once. Qed.
Print Assumptions C08_keys_once.

(* the same through `diff`: rename detection works on an exact, duplicate-free change list *)
Theorem C08_exact : forall o old new fuel,
  o_shallow o = false -> WfO old -> WfO new -> (shortcut_on o = true -> HashConsistent old new) ->
  (fuel_for old new <= fuel)%nat ->
  exists cs, Permutation cs (ref_diff o old new) /\ NoDup (map change_key cs) /\
    diff o old new fuel =
      if renames_on o old new
      then if o_meta_only o then DErr 10 else DOk (detect_renames cs)
      else DOk cs.
Proof. exact diff_exact. Qed.
Print Assumptions C08_exact.

(* no Rename / Unknown comes out of `_diff` (any options, any indexes) *)
Theorem C08_range : forall o old new fuel cs,
  diff_core o old new fuel = Some cs -> Forall (fun c => c_typ c <> Rename /\ c_typ c <> Unknown) cs.
Proof. exact diff_core_range. Qed.
Print Assumptions C08_range.

(* an index diffed with itself shows no change (any options incl. shallow and renames, any index) *)
Theorem C08_refl : forall o i fuel l,
  diff o (Some i) (Some i) fuel = DOk l ->
  Forall (fun c => c_typ c = Unchanged) l /\ (o_with_unchanged o = false -> l = []).
Proof. exact diff_self. Qed.
Print Assumptions C08_refl.

(* swapping the arguments swaps added and deleted (and the sides) and nothing else *)
Theorem C08_swap : forall o old new fuel,
  o_shallow o = false -> (fuel_for old new <= fuel)%nat ->
  exists cs cs', diff_core o old new fuel = Some cs /\ diff_core o new old fuel = Some cs' /\
                 Permutation cs' (map swap_change cs).
Proof. exact diff_core_swap. Qed.
Print Assumptions C08_swap.

(* skipping unchanged hashed sub-trees never hides a change: the run with the shortcut is the
   changed part of the run that visits everything *)
Theorem C08_no_hiding : forall o old new fuel,
  o_shallow o = false -> o_with_unchanged o = false ->
  WfO old -> WfO new -> HashConsistent old new -> (fuel_for old new <= fuel)%nat ->
  exists cs full, diff_core o old new fuel = Some cs /\
                  diff_core (with_unchanged o) old new fuel = Some full /\
                  Permutation cs (filter changed full).
Proof. exact diff_no_hiding. Qed.
Print Assumptions C08_no_hiding.

(* ---- rename detection (any change list) ------------------------------------------------------------------ *)
(* C08_rename_partition: the output is the other changes, the renames of a list [ps] of (deletion,
   addition) pairs, the unpaired additions [ua] and deletions [ud]; additions and deletions of the
   input are partitioned exactly (nothing lost, nothing duplicated); every pair shares a non-empty
   hash; no unpaired addition with a non-empty hash shares it with an unpaired deletion *)
Theorem C08_rename_partition : forall cs,
  exists ps ua ud,
    Permutation (detect_renames cs) (filter is_other cs ++ map mk_rename ps ++ ua ++ ud) /\
    Permutation (filter is_add cs) (map snd ps ++ ua) /\
    Permutation (filter is_del cs) (map fst ps ++ ud) /\
    Forall good_pair ps /\
    (forall a d, In a ua -> In d ud -> hi_truthy (ahash a) = true -> same_hash d a = false).
Proof. exact detect_renames_spec. Qed.
Print Assumptions C08_rename_partition.

Theorem C08_rename_pairs : forall cs c,
  (forall x, In x cs -> c_typ x <> Rename) ->
  In c (detect_renames cs) -> c_typ c = Rename ->
  exists d a, In d cs /\ c_typ d = Delete /\ In a cs /\ c_typ a = Add /\
              c_old c = c_old d /\ c_new c = c_new a /\
              hi_truthy (side_hash (c_new a)) = true /\
              opt_eqb hashinfo_eqb (side_hash (c_old d)) (side_hash (c_new a)) = true.
Proof. exact rename_pairs. Qed.
Print Assumptions C08_rename_pairs.

Theorem C08_rename_maximal : forall cs a d,
  In a (detect_renames cs) -> In d (detect_renames cs) -> c_typ a = Add -> c_typ d = Delete ->
  hi_truthy (side_hash (c_new a)) = true ->
  opt_eqb hashinfo_eqb (side_hash (c_old d)) (side_hash (c_new a)) = false.
Proof. exact rename_maximal. Qed.
Print Assumptions C08_rename_maximal.

(* ---- non-vacuity ------------------------------------------------------------------------------------------- *)
Theorem C08_nonvacuous :
  WfO (Some ex_old) /\ WfO (Some ex_new) /\ HashConsistent (Some ex_old) (Some ex_new) /\
  length (ref_diff (opts_of_code 0) (Some ex_old) (Some ex_new)) = 7%nat.
Proof. exact (conj ex_wf_old (conj ex_wf_new (conj ex_hc eq_refl))). Qed.
Print Assumptions C08_nonvacuous.

(* ---- any options (shallow = True included) ----------------------------------------------------------------- *)
(* the queue in closed form for ANY options and indexes: items stand for nodes (key, old side visible,
   new side visible); no key is visited twice *)
Theorem C08_closed_form_gen : forall o old new fuel,
  (fuel_for old new <= fuel)%nat ->
  NoDup (map fst (svisited o old new)) /\
 exists cs, diff_core o old new fuel = Some cs /\
            Permutation cs (flat_map (syield o old new) (svisited o old new)).
Proof. intros o old new fuel Hf. split; [apply svisited_keys_NoDup | now apply diff_core_closed_gen]. Qed.
Print Assumptions C08_closed_form_gen.

(* no key is ever reported twice: any options, any (also ill-formed) indexes *)
Theorem C08_keys_once_gen : forall o old new fuel cs,
  (fuel_for old new <= fuel)%nat -> diff_core o old new fuel = Some cs -> NoDup (map change_key cs).
Proof. exact diff_keys_once_gen. Qed.
Print Assumptions C08_keys_once_gen.

(* shallow = True (stated for any options): restricted to the keys that are not below a hashed entry
   ([top_change]: no strict prefix of the key carries a hash on either side), the diff IS the flat
   reference *)
Theorem C08_shallow : forall o old new,
  WfO old -> WfO new -> (shortcut_on o = true -> HashConsistent old new) ->
  forall fuel, (fuel_for old new <= fuel)%nat ->
  exists cs, diff_core o old new fuel = Some cs /\
            NoDup (map change_key cs) /\
            Permutation (filter (top_change old new) cs) (filter (top_change old new) (ref_diff o old new)).
Proof. exact shallow_exact. Qed.
Print Assumptions C08_shallow.

(* a directory (any entry) not below a hashed entry whose hash differs is always reported, with both sides *)
Theorem C08_shallow_hash_change_reported : forall o old new,
  WfO old -> WfO new -> (shortcut_on o = true -> HashConsistent old new) ->
  forall fuel cs k a b,
  (fuel_for old new <= fuel)%nat -> diff_core o old new fuel = Some cs ->
  o_meta_only o = false -> topk old new k = true ->
  lookup (idx old) k = Some a -> lookup (idx new) k = Some b ->
  diff_hash_info (e_hash_info a) (e_hash_info b) <> Unchanged ->
  exists c, In c cs /\ change_key c = k /\ c_typ c <> Unchanged /\
           c_old c = Some (k, norm_meta a) /\ c_new c = Some (k, norm_meta b).
Proof. exact shallow_hash_change_reported. Qed.
Print Assumptions C08_shallow_hash_change_reported.

(* ---- swap composed with rename detection ----------------------------------------------------------------------- *)
(* on change lists with distinct keys: rename detection commutes with the swap (the FIFO pairing by
   sorted key is symmetric: [greedy_symmetric]; tuple order is a strict total order, so the sort is
   canonical) *)
Theorem C08_detect_renames_swap : forall cs cs',
  NoDup (map change_key cs) -> Permutation cs' (map swap_change cs) ->
  Permutation (detect_renames cs') (map swap_change (detect_renames cs)).
Proof. exact detect_renames_swap. Qed.
Print Assumptions C08_detect_renames_swap.

(* through `diff`, with or without renames, arbitrary indexes: diff new old is the swap of diff old new
   (a rename old-key -> new-key becomes new-key -> old-key) and nothing else *)
Theorem C08_swap_renames : forall o old new fuel,
  o_shallow o = false -> (fuel_for old new <= fuel)%nat ->
  (renames_on o old new = true -> o_meta_only o = false) ->
  exists l l', diff o old new fuel = DOk l /\ diff o new old fuel = DOk l' /\
              Permutation l' (map swap_change l).
Proof. exact diff_swap. Qed.
Print Assumptions C08_swap_renames.

(* ---- `roots` ------------------------------------------------------------------------------------------------------ *)
(* `roots` is modelled ([diff_core_roots]: one queue item per root, `roots or [()]`) and tied to the code by
   the correspondence `diff_roots` and the oracle `C08:roots-flat-mismatch`.  All statements: shallow = False. *)

(* any indexes, any roots: the queue terminates within [fuel_for_roots] and the output is, root by root, what
   visiting a duplicate-free list of keys (the root, and the children of every node reached from it) yields *)
Theorem C08_roots_closed : forall o old new,
  o_shallow o = false -> forall rs fuel, (fuel_for_roots old new rs <= fuel)%nat ->
  (forall r, NoDup (rvisited o old new r)) /\
  exists cs, diff_core_roots o old new rs fuel = Some cs /\
             Permutation cs (flat_map (fun r => flat_map (yield o old new) (rvisited o old new r)) (eff_roots rs)).
Proof. intros o old new Hs rs fuel Hf. split; [apply rvisited_NoDup | now apply roots_closed]. Qed.
Print Assumptions C08_roots_closed.

(* well-formed indexes, ANY roots (overlapping, repeated, absent): every root contributes exactly the flat
   reference restricted to the keys at or below it - a sub-tree is reported once per covering root *)
Theorem C08_roots_multi : forall o old new,
  o_shallow o = false -> WfO old -> WfO new -> (shortcut_on o = true -> HashConsistent old new) ->
  forall rs fuel, (fuel_for_roots old new rs <= fuel)%nat ->
  exists cs, diff_core_roots o old new rs fuel = Some cs /\
    Permutation cs (flat_map (fun r => flat_map (cls o old new) (filter (is_prefix r) (all_keys old new)))
                             (eff_roots rs)).
Proof. exact roots_multi. Qed.
Print Assumptions C08_roots_multi.

(* prefix-free roots ([antichain]: distinct, none a prefix of another; they need not exist on either side):
   the flat reference restricted to the keys at or below a root, each key once *)
Theorem C08_roots_exact : forall o old new,
  o_shallow o = false -> WfO old -> WfO new -> (shortcut_on o = true -> HashConsistent old new) ->
  forall rs fuel, antichain (eff_roots rs) -> (fuel_for_roots old new rs <= fuel)%nat ->
  exists cs, diff_core_roots o old new rs fuel = Some cs /\
    Permutation cs (flat_map (cls o old new) (filter (covered (eff_roots rs)) (all_keys old new))) /\
    NoDup (map change_key cs).
Proof. exact roots_exact. Qed.
Print Assumptions C08_roots_exact.

(* documentation theorem: with overlapping roots "each key once" fails (witness: roots [(); d] on the pair of
   IndexDiffExamples.v, key d is reported twice); the real code does the same, the property's quantifier
   does not range over `roots` *)
Theorem C08_roots_once_refuted :
  exists o old new rs cs k,
    WfO old /\ WfO new /\ HashConsistent old new /\ o_shallow o = false /\
    diff_core_roots o old new rs (fuel_for_roots old new rs) = Some cs /\
    length (filter (fun c => key_eqb (change_key c) k) cs) = 2%nat /\ ~ NoDup (map change_key cs).
Proof. exact roots_once_refuted. Qed.
Print Assumptions C08_roots_once_refuted.

(* the default roots are the core all theorems above are about *)
Theorem C08_roots_default_partial : forall o old new fuel,
  diff_core_roots o old new [] fuel = diff_core o old new fuel /\
  diff_core_roots o old new [[]] fuel = diff_core o old new fuel /\
  diff_roots o old new [] fuel = diff o old new fuel.
Proof. exact diff_core_roots_default. Qed.
Print Assumptions C08_roots_default_partial.

(* ---- build histories ---------------------------------------------------------------------------------------------- *)
(* an index is its FINAL key -> entry map: [final_map] of a history of sets and deletes is the dictionary the
   history describes, and diff depends on nothing else.  (The real back ends - in-memory pygtrie, SQLite with an
   entry cache - are tied to this by the `disk` stream of the harness: real indexes built through histories
   with overwrites, del / pop / delete_node, reads, commits, close + reopen, compared with the model run on
   [final_map history].) *)
Theorem C08_history_final_map : forall i op k',
  lookup (apply_hop i op) k' =
  match op with
  | HSet k e => if key_eqb k' k then Some e else lookup i k'
  | HDel k => if key_eqb k' k then None else lookup i k'
  end.
Proof. exact lookup_apply_hop. Qed.
Print Assumptions C08_history_final_map.

Theorem C08_history_final_only : forall o h1 h2 h1' h2' fuel,
  final_map h1 = final_map h1' -> final_map h2 = final_map h2' ->
  diff o (Some (final_map h1)) (Some (final_map h2)) fuel = diff o (Some (final_map h1')) (Some (final_map h2')) fuel.
Proof. exact diff_final_map_only. Qed.
Print Assumptions C08_history_final_only.

(* ---- swap for any options (shallow = True included) ------------------------------------------------------------------ *)
Theorem C08_swap_gen : forall o old new fuel,
  (fuel_for old new <= fuel)%nat ->
  exists cs cs', diff_core o old new fuel = Some cs /\ diff_core o new old fuel = Some cs' /\
                 Permutation cs' (map swap_change cs).
Proof. exact diff_core_swap_gen. Qed.
Print Assumptions C08_swap_gen.

Theorem C08_swap_renames_gen : forall o old new fuel,
  (fuel_for old new <= fuel)%nat -> (renames_on o old new = true -> o_meta_only o = false) ->
  exists l l', diff o old new fuel = DOk l /\ diff o new old fuel = DOk l' /\
               Permutation l' (map swap_change l).
Proof. exact diff_swap_gen. Qed.
Print Assumptions C08_swap_renames_gen.

(* ---- `roots` for any options (shallow = True included) ---------------------------------------------------------------- *)
(* the queue started from any list of roots, any options, any indexes, in closed form over the nodes
   (key, old side visible, new side visible); per root no key is visited twice *)
Theorem C08_roots_closed_gen : forall o old new rs fuel,
  (fuel_for_roots old new rs <= fuel)%nat ->
  (forall r, NoDup (map fst (srvisited o old new r))) /\
  exists cs, diff_core_roots o old new rs fuel = Some cs /\
             Permutation cs (flat_map (fun r => flat_map (syield o old new) (srvisited o old new r)) (eff_roots rs)).
Proof. intros o old new rs fuel Hf. split; [apply srvisited_keys_NoDup | now apply roots_closed_gen]. Qed.
Print Assumptions C08_roots_closed_gen.

(* prefix-free roots: no key is reported twice - any options, any (also ill-formed) indexes *)
Theorem C08_roots_keys_once_gen : forall o old new rs fuel cs,
  antichain (eff_roots rs) -> (fuel_for_roots old new rs <= fuel)%nat ->
  diff_core_roots o old new rs fuel = Some cs -> NoDup (map change_key cs).
Proof. exact roots_keys_once_gen. Qed.
Print Assumptions C08_roots_keys_once_gen.

(* roots together with shallow = True (stated for any options): for prefix-free roots and well-formed indexes,
   restricted to the keys k at or below a root r such that no entry p with r <= p < k carries a hash on either
   side ([rtop]; hashed entries ABOVE the root do not matter - a root starts with both sides visible), the
   diff is the flat reference; and no key is reported twice *)
Theorem C08_roots_shallow : forall o old new,
  WfO old -> WfO new -> (shortcut_on o = true -> HashConsistent old new) ->
  forall rs fuel, antichain (eff_roots rs) -> (fuel_for_roots old new rs <= fuel)%nat ->
  exists cs, diff_core_roots o old new rs fuel = Some cs /\
    NoDup (map change_key cs) /\
    Permutation (filter (fun c => rtop old new (eff_roots rs) (change_key c)) cs)
                (flat_map (cls o old new) (filter (rtop old new (eff_roots rs)) (all_keys old new))).
Proof. exact roots_shallow_exact. Qed.
Print Assumptions C08_roots_shallow.

(* NOT PROVED: nothing is claimed below a hashed entry under shallow = True (deliberately inexact there);
   rename detection on top of `roots` is modelled ([diff_roots]) and tied by the correspondence, the
   C08_rename_... theorems are about any change list. *)
