(* C09 - Index checkout converges to the target from any workspace state.
   Only statements here; the model is Model/IdxCheckout.v (one key is classified by the GENERATED
   IDiff.diff_entry), proofs in Proofs/IdxCheckoutProofs.v (maps, classification, no_delete,
   errors_reported), IdxCheckoutConverge.v (deletion phases, induction along the depth-sorted list),
   IdxCheckoutPhases.v (pointwise specifications of makedirs folds, create_files for the three link
   types, chmod), IdxCheckoutFinal.v (assembly: converges, fixpoint).

   Deviations from DESIGN.md section 6 (forced by the behaviour of the code as it is, reproduced on
   the implementation by harness/props/c09.py):
   * exec bits are stated in the property's direction only (an executable entry is executable):
     _chmod_files only ever ORs S_IEXEC, and under hardlink/symlink the bit is the cache object's.
   * the root key () is not a path of the workspace: build() never lists it, so a target with a root
     entry (a lazily loaded directory object at ()) always yields dirs_create = [()] - a no-op
     makedirs of the workspace root; C09_fixpoint says "dirs_create holds at most the root key".
   * the proof does not go "through C08_refines": the model uses the flat union of keys directly
     (C08's statement, exercised by the correspondence on every run). *)
From Coq Require Import NArith List Bool.
From DvcData Require Import Base.Val Base.PyBase Gen.PyTypes Gen.IDiff Model.IdxCheckout Proofs.IdxCheckoutProofs Proofs.IdxCheckoutConverge Proofs.IdxCheckoutPhases Proofs.IdxCheckoutFinal.
Import ListNotations.
Open Scope N_scope.

(* Without delete, a path that is no node of the (loaded) target - neither an entry nor a prefix of
   one - is exactly as it was: kind, bytes, exec bit. ([unshared]: it was not a link into the cache.) *)
Theorem C09_no_delete : forall lt avail tr order odc w t k,
  ~ is_node (fst (expand tr t)) k -> unshared (lookup w k) ->
  lookup (o_ws (checkout lt false avail tr order odc w t)) k = lookup w k.
Proof. exact no_delete. Qed.
Print Assumptions C09_no_delete.

(* Every file entry of the (loaded) target whose source is unavailable - no hash info (code 3) or
   its object absent from the cache (code 2) - and which is not already in place is passed to
   onerror; for any workspace (broken links included), any delete mode, every link type (symlink since
   /repo 41e56e8) - provided _create_dirs did not raise out of apply before any file was fetched
   ([o_dirs_raised]: a file or broken link at the path of a directory entry without hash). *)
Theorem C09_errors_reported : forall lt delete avail tr order odc w t k x c,
  o_dirs_raised (checkout lt delete avail tr order odc w t) = false ->
  lookup (fst (expand tr t)) k = Some (TFile x c) ->
  unavailable avail c = true ->
  same_file (lookup w k) (Some (TFile x c)) = false ->
  In (k, ecode c) (o_errs (checkout lt delete avail tr order odc w t)).
Proof. exact errors_reported. Qed.
Print Assumptions C09_errors_reported.

(* Every directory entry whose object cannot be loaded is passed to onerror (code 1). *)
Theorem C09_failed_dirs_reported : forall lt delete avail tr order odc w t k,
  In k (snd (expand tr t)) -> In (k, 1) (o_errs (checkout lt delete avail tr order odc w t)).
Proof. exact failed_reported. Qed.
Print Assumptions C09_failed_dirs_reported.


(* Hypotheses of the convergence theorems:
   ws_ok w      the prior workspace is prefix closed (every non-empty strict prefix of a path is a
                directory) and the root is no entry;  ANY such workspace, BROKEN LINKS INCLUDED (Dangling:
                e.g. a symlink checkout whose cache objects were collected) - the old index lists them as
                entries without meta and hash, as build_entries does;
   tgt_ok t'    nothing of the (loaded) target lies below a file entry; its directories may have entries
                (build(), lazy loading) or be implicit trie nodes (an index of file entries only);
   the root key carries no file entry; every directory object loads (snd (expand ..) = []); every file
   entry has a hash whose object is in the cache.
   [conv_at o te hn]: te = file entry x c  ->  o is a file with exactly the bytes c (and is executable if x);
                      te = directory entry ->  o is a directory;
                      no entry             ->  o is a directory if the key is an implicit node (hn), else absent. *)

(* With delete=True, from any workspace state, for every link type and every order of the plan: no
   onerror call, apply does not raise, and EVERY path of the workspace is what the target says - files
   with the target's bytes, the target's directories (explicit and implicit), nothing else, executable
   entries executable - including file<->directory kind changes at any depth. *)
Theorem C09_converges : forall lt avail tr order odc w t,
  ws_ok w -> tgt_ok (fst (expand tr t)) -> t_file (lookup (fst (expand tr t)) []) = false ->
  snd (expand tr t) = [] ->
  (forall k x c, lookup (fst (expand tr t)) k = Some (TFile x c) -> exists c0, c = Some c0 /\ mem_bytes c0 avail = true) ->
  let o := checkout lt true avail tr order odc w t in
  o_errs o = [] /\ o_raised o = false /\
  (forall k, k <> [] -> conv_at (lookup (o_ws o) k) (lookup (fst (expand tr t)) k) (has_node (fst (expand tr t)) k)) /\
  lookup (o_ws o) [] = None.
Proof. exact converges. Qed.
Print Assumptions C09_converges.

(* ... and a second compare of the resulting workspace against the same target has nothing to delete
   and nothing to create (dirs_create holds at most the root key, see the header). *)
Theorem C09_fixpoint : forall lt avail tr order odc w t,
  ws_ok w -> tgt_ok (fst (expand tr t)) -> t_file (lookup (fst (expand tr t)) []) = false ->
  snd (expand tr t) = [] ->
  (forall k x c, lookup (fst (expand tr t)) k = Some (TFile x c) -> exists c0, c = Some c0 /\ mem_bytes c0 avail = true) ->
  let o := checkout lt true avail tr order odc w t in
  let p2 := fst (compare false true (o_ws o) tr t) in
  files_delete p2 = [] /\ dirs_delete p2 = [] /\ files_create p2 = [] /\ forall k, In k (dirs_create p2) -> k = [].
Proof. exact fixpoint. Qed.
Print Assumptions C09_fixpoint.

(* The deletion phases alone (the order repaired by /repo d2d7c8a): after _delete_files and
   _delete_dirs (deepest first) a path is gone iff compare scheduled it, every other path is untouched;
   no availability hypothesis. ([ws2] = the workspace after the two phases.) *)
Theorem C09_delete_phase : forall w tr t,
  ws_ok w -> tgt_ok (fst (expand tr t)) ->
  forall k, k <> [] ->
    lookup (ws2 (compare false true w tr t) w) k =
    if fd true (lookup w k) (lookup (fst (expand tr t)) k)
       || dd true (lookup w k) (lookup (fst (expand tr t)) k) (has_node (fst (expand tr t)) k)
    then None else lookup w k.
Proof. exact delete_phase. Qed.
Print Assumptions C09_delete_phase.
