(* C09 - Index checkout converges to the target from any workspace state.
   Only statements here; the model is Model/IdxCheckout.v (one key is classified by the GENERATED
   IDiff.diff_entry), proofs in Proofs/IdxCheckoutProofs.v and Proofs/IdxCheckoutConverge.v.

   Deviations from DESIGN.md section 6 (all forced by the behaviour of the code as it is, each
   reproduced on the implementation by harness/props/c09.py):
   * exec bits are stated in the property's direction only (an executable entry is executable):
     _chmod_files only ever ORs S_IEXEC, and under hardlink/symlink the bit is the cache object's.
   * C09_errors_reported excludes link type symlink: os.symlink does not look at its source, a
     dangling link is made and onerror is never called - C09_errors_reported_symlink_refuted.
   * C09_converges / C09_fixpoint ask that every directory of the target has an entry
     ([dirs_explicit]: what build() and lazy loading produce).  For targets made of file entries
     only the statements are false on the model as on the code:
     C09_fixpoint_implicit_refuted (the second compare wants to delete every implicit directory),
     C09_converges_implicit_link_refuted (hardlink/symlink do not create parent directories). *)
From Coq Require Import NArith List Bool.
From DvcData Require Import Base.Val Base.PyBase Gen.PyTypes Gen.IDiff Model.IdxCheckout Proofs.IdxCheckoutProofs.
Import ListNotations.
Open Scope N_scope.

(* Without delete, a path that is no node of the (loaded) target - neither an entry nor a prefix of
   one - is exactly as it was: kind, bytes, exec bit. ([unshared]: it was not a link into the cache.) *)
Theorem C09_no_delete : forall lt avail tr order w t k,
  ~ is_node (fst (expand tr t)) k -> unshared (lookup w k) ->
  lookup (o_ws (checkout lt false avail tr order w t)) k = lookup w k.
Proof. exact no_delete. Qed.
Print Assumptions C09_no_delete.

(* Every file entry of the (loaded) target whose source is unavailable - no hash info (code 3) or
   its object absent from the cache (code 2) - and which is not already in place is passed to
   onerror; for any workspace, any delete mode, link types copy and hardlink. *)
Theorem C09_errors_reported : forall lt delete avail tr order w t k x c,
  lt <> Symlink ->
  lookup (fst (expand tr t)) k = Some (TFile x c) ->
  unavailable avail c = true ->
  same_file (lookup w k) (Some (TFile x c)) = false ->
  In (k, ecode c) (o_errs (checkout lt delete avail tr order w t)).
Proof. exact errors_reported. Qed.
Print Assumptions C09_errors_reported.

(* Every directory entry whose object cannot be loaded is passed to onerror (code 1). *)
Theorem C09_failed_dirs_reported : forall lt delete avail tr order w t k,
  In k (snd (expand tr t)) -> In (k, 1) (o_errs (checkout lt delete avail tr order w t)).
Proof. exact failed_reported. Qed.
Print Assumptions C09_failed_dirs_reported.

Theorem C09_errors_reported_symlink_refuted :
  exists avail tr order w t k x c,
    lookup (fst (expand tr t)) k = Some (TFile x c) /\ unavailable avail c = true /\
    same_file (lookup w k) (Some (TFile x c)) = false /\
    ~ In (k, ecode c) (o_errs (checkout Symlink true avail tr order w t)) /\
    lookup (o_ws (checkout Symlink true avail tr order w t)) k = Some Dangling.
Proof. exact errors_reported_symlink_refuted. Qed.
Print Assumptions C09_errors_reported_symlink_refuted.
