(* C09 - Index checkout converges to the target from any workspace state.
   Only statements here; the model is Model/IdxCheckout.v (one key is classified by the GENERATED
   IDiff.diff_entry), proofs in Proofs/IdxCheckoutProofs.v (maps, classification, no_delete,
   errors_reported), IdxCheckoutConverge.v (deletion phases, induction along the depth-sorted list),
   IdxCheckoutPhases.v (pointwise specifications of makedirs folds, create_files for the three link
   types, chmod), IdxCheckoutFinal.v (assembly: converges, fixpoint), IdxCheckoutHistory.v (one round preserves
   prefix closure; histories of rounds).

   Deviations from DESIGN.md section 6 (forced by the behaviour of the code as it is, reproduced on
   the implementation by harness/props/c09.py):
   * exec bits are stated in the property's direction only (an executable entry is executable):
     _chmod_files only ever ORs S_IEXEC, and under hardlink/symlink the bit is the cache object's.
   * the root key () is not a path of the workspace: build() never lists it, so a target with a root
     entry (a lazily loaded directory object at ()) always yields dirs_create = [()] - a no-op
     makedirs of the workspace root; C09_fixpoint says "dirs_create holds at most the root key".
   * the proof does not go "through C08_refines": the model uses the flat union of keys directly
     (C08's statement, exercised by the correspondence on every run). *)
From Coq Require Import NArith List Bool.
From DvcData Require Import Base.Val Base.PyBase Gen.PyTypes Gen.IDiff Model.IdxCheckout Proofs.IdxCheckoutProofs Proofs.IdxCheckoutConverge Proofs.IdxCheckoutPhases Proofs.IdxCheckoutFinal Proofs.IdxCheckoutHistory Gen.IdxCompare Gen.IdxApply Proofs.IdxApplyTie.
Import ListNotations.
Open Scope N_scope.

(* Without delete, a path that is no node of the (loaded) target - neither an entry nor a prefix of
   one - is exactly as it was: kind, bytes, exec bit. ([unshared]: it was not a link into the cache.) *)
Theorem C09_no_delete : forall lt avail tr order odc w t k,
  ~ is_node (fst (expand tr t)) k -> unshared (lookup w k) ->
  lookup (o_ws (checkout lt false avail tr order odc w t)) k = lookup w k.
Proof. exact no_delete. Qed.
Print Assumptions C09_no_delete.

(* Every file entry of the (loaded) target whose source is unavailable - no hash info (code 3) or
   its object absent from the cache (code 2) - and which is not already in place is passed to
   onerror; for any workspace (broken links included), any delete mode, every link type (symlink since
   /repo 41e56e8) - provided _create_dirs did not raise out of apply before any file was fetched
   ([o_dirs_raised]: a file or broken link at the path of a directory entry without hash). *)
Theorem C09_errors_reported : forall lt delete avail tr order odc w t k x c,
  o_dirs_raised (checkout lt delete avail tr order odc w t) = false ->
  lookup (fst (expand tr t)) k = Some (TFile x c) ->
  unavailable avail c = true ->
  same_file (lookup w k) (Some (TFile x c)) = false ->
  In (k, ecode c) (o_errs (checkout lt delete avail tr order odc w t)).
Proof. exact errors_reported. Qed.
Print Assumptions C09_errors_reported.

(* Every directory entry whose object cannot be loaded is passed to onerror (code 1). *)
Theorem C09_failed_dirs_reported : forall lt delete avail tr order odc w t k,
  In k (snd (expand tr t)) -> In (k, 1) (o_errs (checkout lt delete avail tr order odc w t)).
Proof. exact failed_reported. Qed.
Print Assumptions C09_failed_dirs_reported.


(* Hypotheses of the convergence theorems:
   ws_ok w      the prior workspace is prefix closed (every non-empty strict prefix of a path is a
                directory) and the root is no entry;  ANY such workspace, BROKEN LINKS INCLUDED (Dangling:
                e.g. a symlink checkout whose cache objects were collected) - the old index lists them as
                entries without meta and hash, as build_entries does;
   tgt_ok t'    nothing of the (loaded) target lies below a file entry; its directories may have entries
                (build(), lazy loading) or be implicit trie nodes (an index of file entries only);
   the root key carries no file entry; every directory object loads (snd (expand ..) = []); every file
   entry has a hash whose object is in the cache.
   [conv_at o te hn]: te = file entry x c  ->  o is a file with exactly the bytes c (and is executable if x);
                      te = directory entry ->  o is a directory;
                      no entry             ->  o is a directory if the key is an implicit node (hn), else absent. *)

(* With delete=True, from any workspace state, for every link type and every order of the plan: no
   onerror call, apply does not raise, and EVERY path of the workspace is what the target says - files
   with the target's bytes, the target's directories (explicit and implicit), nothing else, executable
   entries executable - including file<->directory kind changes at any depth. *)
Theorem C09_converges : forall lt avail tr order odc w t,
  ws_ok w -> tgt_ok (fst (expand tr t)) -> t_file (lookup (fst (expand tr t)) []) = false ->
  snd (expand tr t) = [] ->
  (forall k x c, lookup (fst (expand tr t)) k = Some (TFile x c) -> exists c0, c = Some c0 /\ mem_bytes c0 avail = true) ->
  let o := checkout lt true avail tr order odc w t in
  o_errs o = [] /\ o_raised o = false /\
  (forall k, k <> [] -> conv_at (lookup (o_ws o) k) (lookup (fst (expand tr t)) k) (has_node (fst (expand tr t)) k)) /\
  lookup (o_ws o) [] = None.
Proof. exact converges. Qed.
Print Assumptions C09_converges.

(* ... and a second compare of the resulting workspace against the same target has nothing to delete
   and nothing to create (dirs_create holds at most the root key, see the header). *)
Theorem C09_fixpoint : forall lt avail tr order odc w t,
  ws_ok w -> tgt_ok (fst (expand tr t)) -> t_file (lookup (fst (expand tr t)) []) = false ->
  snd (expand tr t) = [] ->
  (forall k x c, lookup (fst (expand tr t)) k = Some (TFile x c) -> exists c0, c = Some c0 /\ mem_bytes c0 avail = true) ->
  let o := checkout lt true avail tr order odc w t in
  let p2 := fst (compare false true (o_ws o) tr t) in
  files_delete p2 = [] /\ dirs_delete p2 = [] /\ files_create p2 = [] /\ forall k, In k (dirs_create p2) -> k = [].
Proof. exact fixpoint. Qed.
Print Assumptions C09_fixpoint.

(* The deletion phases alone (the order repaired by /repo d2d7c8a): after _delete_files and
   _delete_dirs (deepest first) a path is gone iff compare scheduled it, every other path is untouched;
   no availability hypothesis. ([ws2] = the workspace after the two phases.) *)
Theorem C09_delete_phase : forall w tr t,
  ws_ok w -> tgt_ok (fst (expand tr t)) ->
  forall k, k <> [] ->
    lookup (ws2 (compare false true w tr t) w) k =
    if fd true (lookup w k) (lookup (fst (expand tr t)) k)
       || dd true (lookup w k) (lookup (fst (expand tr t)) k) (has_node (fst (expand tr t)) k)
    then None else lookup w k.
Proof. exact delete_phase. Qed.
Print Assumptions C09_delete_phase.

(* ---- histories of rounds ------------------------------------------------------------------------------------ *)
(* One round of compare + apply - ANY delete flag, link type, availability (directory objects that fail to load,
   missing file sources), also when _create_dirs or _chmod_files raises out of apply - maps a prefix-closed
   workspace (broken links allowed) to a prefix-closed workspace.  Domain: a well-formed target whose root is no
   file entry and, without delete, no file or broken link of the workspace at the path of an IMPLICIT directory
   of the target (there os.makedirs raises out of _create_files; outside the model, see ASSUMPTIONS). *)
Theorem C09_apply_preserves_ws_ok : forall lt delete avail tr order odc w t,
  ws_ok w -> tgt_ok (fst (expand tr t)) -> t_file (lookup (fst (expand tr t)) []) = false ->
  (delete = false -> forall q, lookup (fst (expand tr t)) q = None -> has_node (fst (expand tr t)) q = true -> clear_at w q) ->
  ws_ok (o_ws (checkout lt delete avail tr order odc w t)).
Proof. exact apply_preserves_ws_ok. Qed.
Print Assumptions C09_apply_preserves_ws_ok.

(* Convergence from every REACHABLE workspace: after any list of earlier rounds (each with its own target, delete
   flag, link type and arbitrary availability, [rounds_dom] = each round in the domain above), a final round with
   delete=True and everything available leaves exactly its target, and a further compare plans nothing
   ([converged] = the conclusions of C09_converges and C09_fixpoint together). *)
Theorem C09_history_converges : forall rs w0 lt avail tr order odc t,
  ws_ok w0 -> rounds_dom rs w0 ->
  tgt_ok (fst (expand tr t)) -> t_file (lookup (fst (expand tr t)) []) = false -> snd (expand tr t) = [] ->
  (forall k x c, lookup (fst (expand tr t)) k = Some (TFile x c) -> exists c0, c = Some c0 /\ mem_bytes c0 avail = true) ->
  converged lt avail tr order odc (run_rounds rs w0) t.
Proof. exact history_converges. Qed.
Print Assumptions C09_history_converges.

(* The retry of harness/props/c09.py (model function run_retry, correspondence "retry"): ANY first round on the
   target t - some directory objects unloadable ([tr1]), some file sources missing ([avail1]), the failure
   swallowed or not - followed by a round in which everything is available: the second round's result is exactly
   the target and a third compare plans nothing. *)
Theorem C09_retry_converges : forall lt1 delete1 avail1 tr1 order1 odc1 w t lt avail tr order odc,
  ws_ok w ->
  round_dom {| r_lt := lt1; r_delete := delete1; r_avail := avail1; r_trees := tr1; r_order := order1; r_odc := odc1;
               r_target := t |} w ->
  tgt_ok (fst (expand tr t)) -> t_file (lookup (fst (expand tr t)) []) = false -> snd (expand tr t) = [] ->
  (forall k x c, lookup (fst (expand tr t)) k = Some (TFile x c) -> exists c0, c = Some c0 /\ mem_bytes c0 avail = true) ->
  converged lt avail tr order odc (o_ws (checkout lt1 delete1 avail1 tr1 order1 odc1 w t)) t.
Proof. exact retry_converges. Qed.
Print Assumptions C09_retry_converges.

(* ---- the tie to the source: the model's [apply] runs the phases of index/checkout.py apply() in the
   order the translator reads from /repo on every run (Gen/IdxApply.v, unit idxapply): [g_apply] folds a
   phase interpreter over the GENERATED list; a phase after a create-dirs phase that raised is not run ---- *)
Theorem C09_apply_is_source_apply :
  forall (lt : link) (avail : list bytes) (order order_dc : list key) (p : list action * list key) (w : ws),
    g_apply lt avail order order_dc p w = apply lt avail order order_dc p w.
Proof. exact apply_is_source_apply. Qed.
Print Assumptions C09_apply_is_source_apply.

Theorem C09_source_apply_facts :
  apply_phases = [PDirsFailed; PDeleteFiles; PDeleteDirs; PCreateDirs; PCreateFiles; PChmod] /\
  delete_dirs_deepest_first = true /\ delete_dirs_swallows_oserror = true /\ create_dirs_exist_ok = true /\
  chmod_local_only = true /\ chmod_stat_raises = true /\ chmod_oserror_swallowed = true /\
  create_no_hash_reported_and_skipped = true /\ create_symlink_precheck_reports_missing_source = true /\
  create_makes_parents = true /\ create_transfer_errors_forwarded = true /\
  state_rows_skip_failed = true /\ state_rows_skip_missing = true /\ state_rows_local_only = true /\
  meta_update_skips_failed = true.
Proof. exact source_apply_facts. Qed.
Print Assumptions C09_source_apply_facts.
