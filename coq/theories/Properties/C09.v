(* C09 - Index checkout converges to the target from any workspace state.
   Only statements here; the model is Model/IdxCheckout.v (one key is classified by the GENERATED
   IDiff.diff_entry), proofs in Proofs/IdxCheckoutProofs.v and Proofs/IdxCheckoutConverge.v.

   Deviations from DESIGN.md section 6 (all forced by the behaviour of the code as it is, each
   reproduced on the implementation by harness/props/c09.py):
   * exec bits are stated in the property's direction only (an executable entry is executable):
     _chmod_files only ever ORs S_IEXEC, and under hardlink/symlink the bit is the cache object's.
   * C09_converges is proved for the two deletion phases only (C09_converges_partial: after
     _delete_files and _delete_dirs exactly the paths the target keeps are left - the induction on
     key depth that /repo d2d7c8a repaired); the creation phases and C09_fixpoint are NOT proved
     (statements kept below in a comment; they are exercised by the correspondence + oracle on every
     run and hold by computation on the examples of Proofs/IdxCheckoutConverge.v). *)
From Coq Require Import NArith List Bool.
From DvcData Require Import Base.Val Base.PyBase Gen.PyTypes Gen.IDiff Model.IdxCheckout Proofs.IdxCheckoutProofs Proofs.IdxCheckoutConverge.
Import ListNotations.
Open Scope N_scope.

(* Without delete, a path that is no node of the (loaded) target - neither an entry nor a prefix of
   one - is exactly as it was: kind, bytes, exec bit. ([unshared]: it was not a link into the cache.) *)
Theorem C09_no_delete : forall lt avail tr order w t k,
  ~ is_node (fst (expand tr t)) k -> unshared (lookup w k) ->
  lookup (o_ws (checkout lt false avail tr order w t)) k = lookup w k.
Proof. exact no_delete. Qed.
Print Assumptions C09_no_delete.

(* Every file entry of the (loaded) target whose source is unavailable - no hash info (code 3) or
   its object absent from the cache (code 2) - and which is not already in place is passed to
   onerror; for any workspace, any delete mode, every link type (symlink since /repo 41e56e8). *)
Theorem C09_errors_reported : forall lt delete avail tr order w t k x c,
  lookup (fst (expand tr t)) k = Some (TFile x c) ->
  unavailable avail c = true ->
  same_file (lookup w k) (Some (TFile x c)) = false ->
  In (k, ecode c) (o_errs (checkout lt delete avail tr order w t)).
Proof. exact errors_reported. Qed.
Print Assumptions C09_errors_reported.

(* Every directory entry whose object cannot be loaded is passed to onerror (code 1). *)
Theorem C09_failed_dirs_reported : forall lt delete avail tr order w t k,
  In k (snd (expand tr t)) -> In (k, 1) (o_errs (checkout lt delete avail tr order w t)).
Proof. exact failed_reported. Qed.
Print Assumptions C09_failed_dirs_reported.


(* Deletion phases of apply with delete=True, from ANY prefix-closed workspace, for a target whose
   directories all have entries: after _delete_files and _delete_dirs (deepest first) a path is gone
   iff compare scheduled it - a file whose content the target does not keep at that path, or a
   directory that is neither a directory entry nor an implicit node of the target - however deeply
   the directories to remove are nested and whatever the order of the plan's lists; every other
   path is untouched.  ([ws2] = the workspace after the two phases, Proofs/IdxCheckoutProofs.v.) *)
Theorem C09_converges_partial : forall w tr t,
  ws_ok w -> dirs_explicit (fst (expand tr t)) ->
  forall k, k <> [] ->
    lookup (ws2 (compare false true w tr t) w) k =
    if fd true (lookup w k) (lookup (fst (expand tr t)) k)
       || dd true (lookup w k) (lookup (fst (expand tr t)) k) (has_node (fst (expand tr t)) k)
    then None else lookup w k.
Proof. exact delete_phase. Qed.
Print Assumptions C09_converges_partial.

(* NOT PROVED (full statements of DESIGN.md, in the property's exec direction):
   C09_converges : ws_ok w -> dirs_explicit t' -> snd (expand tr t) = [] ->
     (forall k x c, lookup t' k = Some (TFile x c) -> unavailable avail c = false) ->
     let o := checkout lt true avail tr order w t in
     o_errs o = [] /\ o_raised o = false /\
     forall k, k <> [] ->
       match lookup (o_ws o) k, option_map fs_node' (lookup t' k) with
       | Some (File b x _), Some (File c x' _) => b = c /\ (x' = true -> x = true)
       | Some Dir, Some Dir | None, None => True
       | _, _ => False
       end
   C09_fixpoint : under the same hypotheses, for p2 := fst (compare false true (o_ws o) tr t):
     files_delete p2 = [] /\ dirs_delete p2 = [] /\ files_create p2 = [] /\ forall k, In k (dirs_create p2) -> k = []
   Missing: the pointwise specifications of the fold over dirs_create (mkdirs_spec is proved per
   call), of create_files at the created key for the three link types, and of chmod_files. *)
