(* C17 - Lazy directory loading, filtered views and the fs adaptor are transparent.
   Only statements here; model in Model/IndexLoad.v, proofs in
   Proofs/IndexLoad{Base,Proofs,More,Thms,Explicit}.v.

   Hypotheses (all decidable on a concrete index; Examples ex_ok / ex_wf / ex_lwf beside the proofs):
     ok E i   every unloaded directory entry under the storage prefix names a loadable directory object;
     wf E i   nothing is stored beneath (or twice at) an unloaded directory entry - the premise of the
              property ("holds a directory as a single unloaded entry").  An entry at the root key () is
              allowed (a directory object at the root: then it is the only entry); a view never yields the
              root entry itself ([vf] in C17_view) but loads its directory like any other;
     lwf E i  (C17_explicit only) the listings of the directory objects in play are trees: no row key
              is a proper prefix of another row key;  NoDup (map fst i): the index is a finite map.

   All five statements of DESIGN section 6 are proved at full strength:
   C17_transparent quantifies over every operation of the model (Get, Items deep and shallow, Ls,
   Info, DiffHash, FsLs, FsInfo, FsRead, ViewItems, ViewLs) and every sequence; answers are equal as
   values ([val]), not up to reordering.

   Faults (directory objects unreadable for a while, index.onerror swallowing or raising): the
   environment is part of the run ([run_env], operations OHide / ORestore).  C17_failed_load_unchanged,
   C17_loads_only (no hypothesis at all), C17_faulty_run and C17_failed_load_retries: a failed load is
   never remembered as a load, so once everything is readable again the lazy index answers like the
   fully loaded one, whatever was accessed while it was not. *)
From Coq Require Import NArith List Bool.
From DvcData Require Import Base.Val Model.IndexLoad Proofs.IndexLoadBase Proofs.IndexLoadProofs Proofs.IndexLoadMore Proofs.IndexLoadThms Proofs.IndexLoadExplicit Proofs.IndexLoadDecide Proofs.IndexLoadFaults Gen.IdxLoad Proofs.IndexLoadTie Model.FileLoad Proofs.FileLoadProofs Gen.FileLoadGen Proofs.FileLoadTie.
Import ListNotations.
Open Scope N_scope.

(* every sequence of access operations gives, on the lazy index, exactly the answers of the fully
   loaded index (which itself never changes) *)
Theorem C17_transparent : forall E ops i,
  ok E i -> wf E i ->
  answers E i ops = answers E (load_all E i) ops /\ fst (run E (load_all E i) ops) = load_all E i.
Proof. exact transparent. Qed.
Print Assumptions C17_transparent.

(* the loaded lazy index and the explicit index (the directory's files listed explicitly, computed
   from the lazy index and the store) have the same (key, is-directory, file hash) for every node *)
Theorem C17_explicit : forall E i,
  wf E i -> NoDup (map fst i) -> lwf E i -> project (load_all E i) = project (explicit E i).
Proof. exact explicit_projection. Qed.
Print Assumptions C17_explicit.

(* the hypotheses are decidable; [hypsb] is evaluated by the harness on every generated well-formed case *)
Theorem C17_hyps_decidable : forall E i, hypsb E i = true ->
  ok E i /\ wf E i /\ NoDup (map fst i) /\ lwf E i.
Proof. exact hypsb_sound. Qed.
Print Assumptions C17_hyps_decidable.

Theorem C17_checked : forall E i ops, hypsb E i = true ->
  answers E i ops = answers E (load_all E i) ops /\
  project (load_all E i) = project (explicit E i).
Proof. exact checked. Qed.
Print Assumptions C17_checked.

(* access only ever loads: whatever the operations did, loading the rest yields the loaded index *)
Theorem C17_run_loads_only : forall E ops i,
  ok E i -> wf E i -> load_all E (fst (run E i ops)) = load_all E i.
Proof. exact run_loads_only. Qed.
Print Assumptions C17_run_loads_only.

(* loading is idempotent (no hypothesis), per directory and as a whole; a loaded index is a fixpoint *)
Theorem C17_load_idem : forall E i k,
  load_all E (load_all E i) = load_all E i /\ load E k (load E k i) = load E k i /\
  load_all E (load E k i) = load_all E i.
Proof. intros E i k. split; [apply load_all_idem | split; [apply load_idem | apply load_then_all]]. Qed.
Print Assumptions C17_load_idem.

Theorem C17_loaded_fixed : forall E s i, ok E i -> load_where E s (load_all E i) = load_all E i.
Proof. exact loaded_is_fixed. Qed.
Print Assumptions C17_loaded_fixed.

(* a view with a prefix-closed filter exposes precisely the entries whose keys pass the filter *)
Theorem C17_view : forall f i, prefix_closed f ->
  view_items_q f i = filter_res (fun c : key * option entry => vf f (fst c)) (items_q [] false i).
Proof. exact view_is_filter. Qed.
Print Assumptions C17_view.

Theorem C17_view_step : forall E f i, ok E i -> wf E i -> prefix_closed f ->
  snd (view_items_step E (load_all E i) f) =
  filter_res (fun c : key * option entry => vf f (fst c)) (snd (items_step E (load_all E i) [] false)).
Proof. exact view_step_is_filter. Qed.
Print Assumptions C17_view_step.

(* the adaptor: the key of the path of a valid key is that key, so path_of_key is injective on valid
   keys (with fs_key as its inverse: a bijection between valid keys and their normalised paths) *)
Theorem C17_fs : forall k, valid_key k -> fs_key (path_of_key k) = k.
Proof. exact fs_key_of_path. Qed.
Print Assumptions C17_fs.

Theorem C17_fs_injective : forall k1 k2, valid_key k1 -> valid_key k2 ->
  path_of_key k1 = path_of_key k2 -> k1 = k2.
Proof. exact path_injective. Qed.
Print Assumptions C17_fs_injective.

(* reading a path returns the bytes stored under the hash of the entry the path addresses, taken from
   the first storage - in the adaptor's order cache, remote, data - that holds the object; the read
   succeeds whenever any registered storage holds it and fails only if none does *)
Theorem C17_fs_read : forall E i p e h b, ok E i ->
  get_q (fs_key p) (load_all E i) = Ok (Some e) -> isdir_raw (norm e) = false ->
  under_sp E (fs_key p) = true -> e_hash e = Some h -> hi_truthy (Some h) = true ->
  blob_of E h = Some b ->
  snd (fs_read_step E (load_all E i) p) = Ok b.
Proof. exact fs_read_bytes. Qed.
Print Assumptions C17_fs_read.

Theorem C17_fs_read_first : forall E h b, blob_of E h = Some b ->
  exists pre st post, roles_read E = pre ++ Some st :: post /\ assoc (s_blobs st) h = Some b /\
                      forall st', In (Some st') pre -> assoc (s_blobs st') h = None.
Proof. exact blob_first. Qed.
Print Assumptions C17_fs_read_first.

Theorem C17_fs_read_any : forall E h st, In (Some st) (roles_read E) -> assoc (s_blobs st) h <> None ->
  exists b, blob_of E h = Some b.
Proof. exact blob_any. Qed.
Print Assumptions C17_fs_read_any.

Theorem C17_fs_read_none : forall E h, blob_of E h = None <->
  forall st, In (Some st) (roles_read E) -> assoc (s_blobs st) h = None.
Proof. exact blob_none. Qed.
Print Assumptions C17_fs_read_none.

(* ---- faults ---- *)
(* a load that finds no loadable object leaves the index unchanged (the entry stays unloaded) *)
Theorem C17_failed_load_unchanged : forall E s i,
  (forall x, In x i -> s x = true -> loadable E x = true -> listing_of E (snd x) = None) ->
  load_where E s i = i.
Proof. exact failed_load_unchanged. Qed.
Print Assumptions C17_failed_load_unchanged.

(* in any environment and any state, an access changes the index by loads only *)
Theorem C17_loads_only : forall E o i, exists s, fst (step E i o) = load_where E s i.
Proof. exact step_loads_only. Qed.
Print Assumptions C17_loads_only.

(* through any history of accesses and of objects disappearing and re-appearing: loading what is left
   in the restored environment gives the loaded index, well-formedness is kept, nothing new is loadable *)
Theorem C17_faulty_run : forall ops E i, wf E i ->
  let '(E1, i1, _) := run_env E i ops in
  unhide E1 = unhide E /\
  load_all (unhide E) i1 = load_all (unhide E) i /\
  wf (unhide E) i1 /\
  (forall y, In y i1 -> loadable (unhide E) y = true -> In y i).
Proof. exact faulty_run. Qed.
Print Assumptions C17_faulty_run.

(* hence: after any such history, in the restored environment every sequence of accesses answers
   exactly like the fully loaded index *)
Theorem C17_failed_load_retries : forall E i ops1 E1 i1 l ops2,
  wf E i -> ok (unhide E) i -> run_env E i ops1 = (E1, i1, l) ->
  answers (unhide E) i1 ops2 = answers (unhide E) (load_all (unhide E) i) ops2.
Proof. exact retries. Qed.
Print Assumptions C17_failed_load_retries.

(* ---- the tie to the source: the loading rules of the model ARE those of index/index.py as the
   translator reads them from /repo on every run (Gen/IdxLoad.v, unit idxload) ---- *)

(* [loadable] is the chain of `if <test>: return` guards of DataIndex._load *)
Theorem C17_loadable_is_source_guard :
  forall E k e,
    loadable E (k, e) = load_proceeds (e_loaded e) (has_meta e) (isdir_raw e) (under_sp E k).
Proof. exact loadable_is_source_guard. Qed.
Print Assumptions C17_loadable_is_source_guard.

(* the roles are tried in the source's order *)
Theorem C17_roles_load_is_source_order : forall E, roles_load E = map (role_store E) load_roles.
Proof. exact roles_load_is_source_order. Qed.
Print Assumptions C17_roles_load_is_source_order.

(* the directory entries a load creates are exactly those of the source's ancestor loop: every proper
   non-empty prefix of every listed key, at any depth *)
Theorem C17_proper_inits_is_source_ancestors :
  forall (k p : key), In p (proper_inits k) <-> In p (ancestors k).
Proof. exact proper_inits_is_source_ancestors. Qed.
Print Assumptions C17_proper_inits_is_source_ancestors.

Theorem C17_children_dirs_are_source_dirs :
  forall (rows : list lrow) (p : key),
    In p (flat_map (fun r => proper_inits (r_key r)) rows) <->
    In p (flat_map (fun r => ancestors (r_key r)) rows).
Proof. exact children_dirs_are_source_dirs. Qed.
Print Assumptions C17_children_dirs_are_source_dirs.

(* a load that succeeds passed the source's refusal guard; the two entry constructors *)
Theorem C17_listing_needs_source_guard :
  forall E e, listing_of E e <> None ->
    ols_refuses (hi_truthy (e_hash e)) (hi_isdir (e_hash e)) = false.
Proof. exact listing_needs_source_guard. Qed.
Print Assumptions C17_listing_needs_source_guard.

Theorem C17_entry_constructors_are_source :
  e_loaded dir_entry = dir_entry_loaded /\ isdir_raw dir_entry = dir_entry_isdir /\
  hi_truthy (e_hash dir_entry) = dir_entry_has_hash /\
  (forall r, e_loaded (file_entry r) = child_loaded) /\
  (forall r, e_hash (file_entry r) = Some (r_hash r)).
Proof. exact entry_constructors_are_source. Qed.
Print Assumptions C17_entry_constructors_are_source.

(* ---- the second loading route: a directory entry backed by a FileStorage (Model/FileLoad.v) ---------------
   An unloaded directory entry at key k served by FileStorage(prefix p, path = root of the workspace w) is
   loaded from the files: what is stored is EXACTLY the sub-tree below k of the explicit index over the same
   workspace (build_entries with every key put under p) - for every outcome of every key. *)
Theorem C17_file_storage_transparent :
  forall (p : key) (w : ws) (k : key),
    match load_file p w k with
    | FlAssert => is_prefix p k = false
    | FlMissing => exists rel, k = p ++ rel /\ ws_exists w rel = false
    | FlOk l => l = under k (explicit_of p w)
    end.
Proof. exact load_file_total. Qed.
Print Assumptions C17_file_storage_transparent.

Theorem C17_file_storage_loads :
  forall (p : key) (w : ws) (rel : key),
    ws_exists w rel = true ->
    load_file p w (p ++ rel) = FlOk (under (p ++ rel) (explicit_of p w)).
Proof. exact load_file_is_explicit_subtree. Qed.
Print Assumptions C17_file_storage_loads.

(* nothing outside the loaded directory is written; every file and directory below it is, once, where the
   workspace puts it *)
Theorem C17_file_storage_only_below :
  forall p w k l, load_file p w k = FlOk l -> forall k' e, In (k', e) l -> strict_prefix k k' = true.
Proof. exact load_file_only_below. Qed.
Print Assumptions C17_file_storage_only_below.

Theorem C17_file_storage_complete :
  forall p w rel n,
    ws_exists w rel = true -> In n w -> strict_prefix rel (f_key n) = true ->
    exists l, load_file p w (p ++ rel) = FlOk l /\ In (p ++ f_key n, fs_entry n) l.
Proof. exact load_file_complete. Qed.
Print Assumptions C17_file_storage_complete.

Theorem C17_file_storage_sound :
  forall p w k l k' e,
    load_file p w k = FlOk l -> In (k', e) l ->
    exists n, In n w /\ k' = p ++ f_key n /\ e = fs_entry n.
Proof. exact load_file_sound. Qed.
Print Assumptions C17_file_storage_sound.

(* the storage prefix is a presentation detail: serving the sub-tree d directly (prefix p ++ d, path/d) loads
   the same entries as serving it from above (prefix p, path) *)
Theorem C17_file_storage_prefix_irrelevant :
  forall p d w rel l1 l2,
    load_file (p ++ d) (subtree d w) (p ++ d ++ rel) = FlOk l1 ->
    load_file p w (p ++ d ++ rel) = FlOk l2 ->
    l1 = l2.
Proof. exact load_file_prefix_irrelevant. Qed.
Print Assumptions C17_file_storage_prefix_irrelevant.

(* a workspace with distinct node keys (every tree-shaped one: [ws_treeb], evaluated by the correspondence on
   every generated case) is loaded as a finite map *)
Theorem C17_file_storage_keys_distinct :
  forall p w k l,
    keys_distinct (map f_key w) = true -> load_file p w k = FlOk l -> NoDup (map fst l).
Proof. exact load_file_keys_distinct. Qed.
Print Assumptions C17_file_storage_keys_distinct.

(* the INDEX after DataIndex._load through a FileStorage, for every key: below k the explicit index over the
   workspace answers (what the trie held there before is overwritten only where the workspace has a node),
   at k the entry gains the bookkeeping flag, everywhere else nothing changes *)
Theorem C17_file_storage_index_lookup :
  forall p w k i i',
    idx_load_file p w k i = Some i' ->
    forall k',
      lookup i' k' =
      if strict_prefix k k'
      then match lookup (explicit_of p w) k' with Some e => Some e | None => lookup i k' end
      else if key_eqb k' k then option_map mark (lookup i k') else lookup i k'.
Proof. exact idx_load_file_lookup. Qed.
Print Assumptions C17_file_storage_index_lookup.

(* under the property's premise (the directory is held as a single unloaded entry: nothing stored below k) the
   lazily loaded index answers every key below k exactly as the explicit index, and every other key as before *)
Theorem C17_file_storage_index_transparent :
  forall p w k i i',
    (forall k', strict_prefix k k' = true -> lookup i k' = None) ->
    idx_load_file p w k i = Some i' ->
    (forall k', strict_prefix k k' = true -> lookup i' k' = lookup (explicit_of p w) k') /\
    (forall k', strict_prefix k k' = false -> lookupS i' k' = lookupS i k').
Proof. exact idx_load_file_transparent. Qed.
Print Assumptions C17_file_storage_index_transparent.

Theorem C17_file_storage_refused_load_not_remembered :
  forall p w k i, idx_load_file p w k i = None <-> (forall l, load_file p w k <> FlOk l).
Proof. exact idx_load_file_refused. Qed.
Print Assumptions C17_file_storage_refused_load_not_remembered.

(* ---- the FileStorage loading model is what the source says (unit fileload, regenerated on every run) ------- *)
Theorem C17_file_storage_get_is_source :
  forall p k,
    fsget_asserts_prefix = true /\ fsget_strips_prefix = true /\
    fs_rel p k = if is_prefix p k then Some (fsget_rel (length p) 0 k) else None.
Proof. exact fs_rel_is_source_get. Qed.
Print Assumptions C17_file_storage_get_is_source.

Theorem C17_file_storage_load_is_source :
  forall p w k,
    fls_refuses_missing = true /\ fls_stores_under_new_key = true /\
    load_file p w k =
    match fs_rel p k with
    | None => FlAssert
    | Some rel =>
        if ws_exists w rel
        then FlOk (map (fun n => (fls_child_key k (skipn (length rel) (f_key n)), fs_entry n)) (below rel w))
        else FlMissing
    end.
Proof. exact load_file_is_source. Qed.
Print Assumptions C17_file_storage_load_is_source.

Theorem C17_file_storage_entry_is_source :
  forall n,
    be_compute_hash_default = false /\
    e_hash (fs_entry n) = be_hash_when_not_computed /\
    e_loaded (fs_entry n) = be_loaded_flag (f_dir n).
Proof. exact fs_entry_is_source. Qed.
Print Assumptions C17_file_storage_entry_is_source.
