(* C17 - Lazy directory loading, filtered views and the fs adaptor are transparent.
   Only statements here; model in Model/IndexLoad.v, proofs in Proofs/IndexLoad{Base,Proofs,Thms}.v.

   Hypotheses (all decidable on a concrete index; Examples ex_ok / ex_wf in IndexLoadThms.v):
     ok E i   every unloaded directory entry under the storage prefix names a loadable directory object;
     wf E i   nothing is stored beneath (or twice at) an unloaded directory entry, the root key has
              no entry - the premise of the property ("holds a directory as a single unloaded entry").

   Deviations from DESIGN section 6, stated:
   * C17_transparent is proved for every operation but the hash-level diff and the *shallow*
     iteration ([supported]); hence the name C17_transparent_partial.  Full statement:
         forall ops i, ok E i -> wf E i -> answers E i ops = answers E (load_all E i) ops.
     Missing: the simulation lemma for [diff_node] (induction on the fuel with the per-child state
     threading; it needs nothing beyond ls_sim/get_sim, which are proved) and for items_q .. true
     (the [top] predicate).  Both operations are in the executable model and in the
     correspondence on every run, and agree on the worked example (ex_unsupported_agree).
   * C17_explicit (project (load_all lazy) = project (explicit lazy)) is not proved in general; the
     two projections are *computed* by the model for every generated case and compared with the
     real loaded and the real explicit index (correspondence "lazy"), and ex_explicit checks a
     concrete instance.  Missing: membership characterisation of [node_keys] on both constructions
     under a tree-shaped-listing hypothesis. *)
From Coq Require Import NArith List Bool.
From DvcData Require Import Base.Val Model.IndexLoad Proofs.IndexLoadBase Proofs.IndexLoadProofs Proofs.IndexLoadThms.
Import ListNotations.
Open Scope N_scope.

(* every sequence of supported access operations gives, on the lazy index, exactly the answers
   of the fully loaded index (which itself never changes) *)
Theorem C17_transparent_partial : forall E ops i,
  ok E i -> wf E i -> Forall supported ops ->
  answers E i ops = answers E (load_all E i) ops /\ fst (run E (load_all E i) ops) = load_all E i.
Proof. exact transparent_partial. Qed.
Print Assumptions C17_transparent_partial.

(* access only ever loads: whatever the operations did, loading the rest yields the loaded index *)
Theorem C17_run_loads_only : forall E ops i,
  ok E i -> wf E i -> Forall supported ops -> load_all E (fst (run E i ops)) = load_all E i.
Proof. exact run_loads_only. Qed.
Print Assumptions C17_run_loads_only.

(* loading is idempotent (no hypothesis), per directory and as a whole; a loaded index is a fixpoint *)
Theorem C17_load_idem : forall E i k,
  load_all E (load_all E i) = load_all E i /\ load E k (load E k i) = load E k i /\
  load_all E (load E k i) = load_all E i.
Proof. intros E i k. split; [apply load_all_idem | split; [apply load_idem | apply load_then_all]]. Qed.
Print Assumptions C17_load_idem.

Theorem C17_loaded_fixed : forall E s i, ok E i -> load_where E s (load_all E i) = load_all E i.
Proof. exact loaded_is_fixed. Qed.
Print Assumptions C17_loaded_fixed.

(* a view with a prefix-closed filter exposes precisely the entries whose keys pass the filter *)
Theorem C17_view : forall f i, prefix_closed f -> (forall x, In x i -> fst x <> []) ->
  view_items_q f i = filter_res (fun c : key * option entry => f (fst c)) (items_q [] false i).
Proof. exact view_is_filter. Qed.
Print Assumptions C17_view.

Theorem C17_view_step : forall E f i, ok E i -> wf E i -> prefix_closed f ->
  snd (view_items_step E (load_all E i) f) =
  filter_res (fun c : key * option entry => f (fst c)) (snd (items_step E (load_all E i) [] false)).
Proof. exact view_step_is_filter. Qed.
Print Assumptions C17_view_step.

(* the adaptor: the key of the path of a valid key is that key, so path_of_key is injective on valid
   keys (with fs_key as its inverse: a bijection between valid keys and their normalised paths) *)
Theorem C17_fs : forall k, valid_key k -> fs_key (path_of_key k) = k.
Proof. exact fs_key_of_path. Qed.
Print Assumptions C17_fs.

Theorem C17_fs_injective : forall k1 k2, valid_key k1 -> valid_key k2 ->
  path_of_key k1 = path_of_key k2 -> k1 = k2.
Proof. exact path_injective. Qed.
Print Assumptions C17_fs_injective.

(* reading a path returns the bytes stored under the hash of the entry the path addresses *)
Theorem C17_fs_read : forall E i p e h b, ok E i ->
  get_q (fs_key p) (load_all E i) = Ok (Some e) -> isdir_raw (norm e) = false ->
  under_sp E (fs_key p) = true -> e_hash e = Some h -> hi_truthy (Some h) = true ->
  assoc (v_blobs E) h = Some b ->
  snd (fs_read_step E (load_all E i) p) = Ok b.
Proof. exact fs_read_bytes. Qed.
Print Assumptions C17_fs_read.
