(* C19 - Three-way directory merge never silently loses or overrides an entry.
   Only statements here; proofs are in Proofs/MergeTheorems.v (on Proofs/MergeProofs.v), the
   model in Model/Merge.v:
     [merge_ a o t pol]  = _merge(ancestor, our, their, allowed=pol)   (tree.py 300-332)
     [diff_]             = _diff                                       (tree.py 284-297)
     [merge_obj]         = merge(odb, ancestor_info, our_info, their_info, allowed)   (335-362)
     [dd_diff], [dd_patch] = dictdiffer.diff / patch on flat dicts (environment model, compared
                           with the real library on every run)
   The control structure of _diff / _merge / merge is not trusted to the hand-written model: it is
   regenerated from the source on every run (Gen/Merge.v) and C19_model_is_generated proves the
   model equal to it.
   A listing is a finite map key -> value (value = the ==-class of a (Meta, HashInfo) pair);
   all theorems hold for ARBITRARY finite maps - no bound on keys, nesting or values.

   Deviations from DESIGN section 6:
   * C19_total_err was expected to be refuted (KeyError, DESIGN 7.4); that defect was repaired in
     /repo (f9f9b8c) and the theorem now HOLDS for listings.  Its hypothesis [no_empty_key]
     (the key is never the empty tuple - true of every listing loaded from a store, whose keys
     are relpath.split("/")) is necessary: C19_total_err_empty_key_refuted.
   * C19_digest is stated for an arbitrary digest function (the identifier IS digest of the
     returned listing and that listing IS the three-way merge of the loaded ones);
     C19_digest_md5 instantiates it with the executable Tree.digest of Model/Listing.v, which the
     correspondence stream "tree" compares byte for byte with what merge() returns.  That this
     digest is canonical (order-independent, injective up to md5) is C03's subject.
   * extra: C19_complete (no spurious failure except the documented double removal),
     C19_default_refuses, and the per-path corollaries. *)
From Coq Require Import NArith.
From stdpp Require Import gmap.
From DvcData Require Import Base.Val Model.Merge Proofs.MergeProofs Proofs.MergeTheorems Proofs.MergeDigest Proofs.MergeGen.
From DvcData Require Model.Listing.
Open Scope N_scope.

(* The model the theorems below speak about IS the control structure generated from the current
   hashfile/tree.py (Gen/Merge.v, translator/mergeunit.py: _diff, _merge statement by statement,
   the load/_merge/digest skeleton of merge), instantiated with the environment model of
   dictdiffer ([dd_diff], [dd_patch], [op_kind]), of the message evaluation ([conflict_paths]) and
   the empty listing. *)
Theorem C19_model_is_generated :
  (∀ (a b : gmap (list (list N)) N) pol, diff_ a b pol = g_diff dd_diff op_kind pol a b) ∧
  (∀ (a o t : gmap (list (list N)) N) pol,
     merge_ a o t pol = g_merge dd_diff dd_patch op_kind conflict_paths pol a o t) ∧
  (∀ (oid : Type) (load : oid → option (gmap (list (list N)) N)) (digest : gmap (list (list N)) N → oid)
     ai oi ti pol,
     merge_obj load digest ai oi ti pol =
       g_merge_obj dd_diff dd_patch op_kind conflict_paths load digest ∅ ai oi ti pol).
Proof.
  split; [exact diff_is_generated|]. split; [exact merge_is_generated|].
  intros oid. exact (@merge_obj_is_generated oid).
Qed.
Print Assumptions C19_model_is_generated.

(* a successful merge is THE three-way merge *)
Theorem C19_sound : ∀ (a o t : gmap (list (list N)) N) pol m,
  merge_ a o t pol = Ok m → merge3 a o t = Some m.
Proof. exact merge_sound. Qed.
Print Assumptions C19_sound.

(* ... spelled out without the specification function: every path takes the side that changed
   it, or the common value *)
Theorem C19_sound_pointwise : ∀ (a o t : gmap (list (list N)) N) pol m,
  merge_ a o t pol = Ok m →
  ∀ k, (o !! k = t !! k ∧ m !! k = o !! k)
     ∨ (o !! k = a !! k ∧ m !! k = t !! k)
     ∨ (t !! k = a !! k ∧ m !! k = o !! k).
Proof. exact merge_sound_pointwise. Qed.
Print Assumptions C19_sound_pointwise.

(* [merge3] is characterised by the rule: it is not an arbitrary function *)
Theorem C19_merge3_spec : ∀ (a o t m : gmap (list (list N)) N),
  merge3 a o t = Some m ↔ ∀ k, rule3 (a !! k) (o !! k) (t !! k) = Take (m !! k).
Proof. exact merge3_Some. Qed.
Print Assumptions C19_merge3_spec.

Theorem C19_merge3_conflict : ∀ (a o t : gmap (list (list N)) N),
  merge3 a o t = None ↔ ∃ k, rule3 (a !! k) (o !! k) (t !! k) = Conflict.
Proof. exact merge3_None. Qed.
Print Assumptions C19_merge3_conflict.

(* nothing invented / resurrected *)
Theorem C19_no_invention : ∀ (a o t : gmap (list (list N)) N) pol m k v,
  merge_ a o t pol = Ok m → m !! k = Some v → o !! k = Some v ∨ t !! k = Some v.
Proof. exact merge_no_invention. Qed.
Print Assumptions C19_no_invention.

(* nothing dropped that both sides have *)
Theorem C19_no_drop : ∀ (a o t : gmap (list (list N)) N) pol m k,
  merge_ a o t pol = Ok m → m !! k = None → o !! k = None ∨ t !! k = None.
Proof. exact merge_no_drop. Qed.
Print Assumptions C19_no_drop.

(* no change of either side is overridden *)
Theorem C19_keeps_change : ∀ (a o t : gmap (list (list N)) N) pol m k,
  merge_ a o t pol = Ok m →
  (o !! k ≠ a !! k → m !! k = o !! k) ∧ (t !! k ≠ a !! k → m !! k = t !! k).
Proof. exact merge_keeps_change. Qed.
Print Assumptions C19_keeps_change.

(* the only failure is MergeError (no KeyError, no TypeError, ...) *)
Theorem C19_total_err : ∀ (a o t : gmap (list (list N)) N) pol e,
  no_empty_key o → no_empty_key t →
  merge_ a o t pol = Err e → e = MergeError.
Proof. exact merge_total_err. Qed.
Print Assumptions C19_total_err.

Theorem C19_total : ∀ (a o t : gmap (list (list N)) N) pol,
  no_empty_key o → no_empty_key t →
  (∃ m, merge_ a o t pol = Ok m ∧ merge3 a o t = Some m) ∨ merge_ a o t pol = Err MergeError.
Proof. exact merge_total. Qed.
Print Assumptions C19_total.

(* the hypothesis is needed: raw dictionaries with the key () - in model and code alike *)
Theorem C19_total_err_empty_key_refuted :
  ∃ (a o t : gmap (list (list N)) N) pol e, merge_ a o t pol = Err e ∧ e ≠ MergeError.
Proof. exact merge_total_err_empty_key_refuted. Qed.
Print Assumptions C19_total_err_empty_key_refuted.

(* both argument orders succeed -> same result *)
Theorem C19_sym : ∀ (a o t : gmap (list (list N)) N) pol m1 m2,
  merge_ a o t pol = Ok m1 → merge_ a t o pol = Ok m2 → m1 = m2.
Proof. exact merge_sym. Qed.
Print Assumptions C19_sym.

(* default policy (allowed=None or [] or ["add"]): a merge that combines two non-empty diffs is
   accepted only if both sides merely added entries; the result is then the union *)
Theorem C19_default : ∀ (a o t : gmap (list (list N)) N) pol m,
  effective pol = [KAdd] →
  dd_diff a o ≠ [] → dd_diff a t ≠ [] →
  merge_ a o t pol = Ok m →
  a ⊆ o ∧ a ⊆ t ∧ m = o ∪ t.
Proof. exact merge_default. Qed.
Print Assumptions C19_default.

Theorem C19_default_is_add : effective None = [KAdd] ∧ effective (Some []) = [KAdd].
Proof. exact effective_default. Qed.
Print Assumptions C19_default_is_add.

Theorem C19_diff_empty : ∀ (a b : gmap (list (list N)) N), dd_diff a b = [] ↔ a = b.
Proof. exact dd_diff_nil. Qed.
Print Assumptions C19_diff_empty.

Theorem C19_default_refuses : ∀ (a o t : gmap (list (list N)) N) pol,
  effective pol = [KAdd] →
  dd_diff a o ≠ [] → dd_diff a t ≠ [] →
  ¬ (a ⊆ o ∧ a ⊆ t) →
  no_empty_key o → no_empty_key t →
  merge_ a o t pol = Err MergeError.
Proof. exact merge_default_refuses. Qed.
Print Assumptions C19_default_refuses.

(* no spurious failure: policy admits both diffs, no conflict, no path removed by both sides
   (the "todo" of the source) -> the merge succeeds with the three-way merge *)
Theorem C19_complete : ∀ (a o t : gmap (list (list N)) N) pol m,
  allowed_diff a o pol → allowed_diff a t pol →
  merge3 a o t = Some m → ¬ double_remove a o t →
  merge_ a o t pol = Ok m.
Proof. exact merge_complete. Qed.
Print Assumptions C19_complete.

(* merge(): the returned identifier is the digest of the returned listing, which is the
   three-way merge of the three loaded listings (ancestor None = empty listing) *)
Theorem C19_digest : ∀ (oid : Type) (load : oid → option (gmap (list (list N)) N))
    (digest : gmap (list (list N)) N → oid) ai oi ti pol id m,
  merge_obj load digest ai oi ti pol = Ok (id, m) →
  ∃ a o t, loaded_anc load ai a ∧ load oi = Some o ∧ load ti = Some t ∧
           merge3 a o t = Some m ∧ id = digest m.
Proof. exact @merge_obj_digest. Qed.
Print Assumptions C19_digest.

(* ... instantiated with the executable Tree.digest of Model/Listing.v (md5 of the canonical JSON
   of the listing, ".dir"): this instance is what the correspondence runs against merge() *)
Theorem C19_digest_md5 : ∀ (hexof : N → list N * list N) (load : list N → option (gmap (list (list N)) N))
    ai oi ti pol id m,
  merge_tree hexof load ai oi ti pol = Ok (id, m) →
  ∃ a o t, loaded_anc load ai a ∧ load oi = Some o ∧ load ti = Some t ∧
           merge3 a o t = Some m ∧ id = Listing.digest (tree_of hexof m).
Proof. exact merge_tree_digest. Qed.
Print Assumptions C19_digest_md5.

Theorem C19_merge_errors : ∀ (oid : Type) (load : oid → option (gmap (list (list N)) N))
    (digest : gmap (list (list N)) N → oid) ai oi ti pol e,
  (∀ i d, load i = Some d → no_empty_key d) →
  merge_obj load digest ai oi ti pol = Err e → e = MergeError ∨ e = LoadError.
Proof. exact @merge_obj_errors. Qed.
Print Assumptions C19_merge_errors.
