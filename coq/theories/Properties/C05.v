(* C05 - Checkout never destroys user data that is not recoverable from the cache.
   Only statements; model in Model/ObjCheckout.v, proofs in Proofs/ObjCheckoutProofs*.v.

   H is an arbitrary content hash with non-empty values; [order] (iteration order of the key set),
   the tested link types, the prompt and the cache are arbitrary.  [stageable w] = the dry
   re-staging of the workspace succeeds (no dangling symbolic link).  Deviation from DESIGN:
   without that hypothesis the statement is FALSE for the code as it is (old = None after a
   swallowed FileNotFoundError, every key becomes ADD and is linked over without _remove) - see
   C05_no_loss_refuted_unstageable, reproduced on the implementation (signature
   C05:unrecoverable-lost:old-tree-build-failed).
   C05_refusal (PromptError p -> ws' p = ws p) is not proved: it needs the key order to be
   duplicate-free and a frame argument over the three change lists; it is checked by the oracle
   (C05:refused-but-touched) and the correspondence only. *)
From Coq Require Import NArith List Bool.
From DvcData Require Import Base.Val Base.PyBase Model.ObjCheckout Proofs.ObjCheckoutProofs Proofs.ObjCheckoutProofs2.
Import ListNotations.
Open Scope N_scope.

(* every workspace file that checkout removed or replaced is accounted for: forced, or its
   content is the name of a cache object, or the prompt answered yes for that very path *)
Theorem C05_no_loss : forall (H : bytes -> oid), (forall b, is_nil (H b) = false) ->
  forall g c w tgt order k n,
  stageable w = true -> kassoc k w = Some n ->
  kassoc k (r_ws (checkout H g c w tgt order)) = Some n \/
  g_force g = true \/ (exists co, oassoc (H (f_bytes n)) c = Some co) \/
  (exists f, g_prompt g = Some f /\ f k = true).
Proof. intros H Hne g c w tgt order k n Hs Hk. exact (checkout_no_loss H Hne g c w tgt order k n Hs Hk). Qed.
Print Assumptions C05_no_loss.

(* without force and without a prompt, only files whose bytes are recoverable are touched:
   the cache (intact, collision-free) holds exactly those bytes *)
Theorem C05_only_recoverable_replaced : forall (H : bytes -> oid), (forall b, is_nil (H b) = false) ->
  forall g c w tgt order k n,
  (forall o co, oassoc o c = Some co -> H (c_bytes co) = o) -> (forall a b, H a = H b -> a = b) ->
  stageable w = true -> g_force g = false -> g_prompt g = None ->
  kassoc k w = Some n -> kassoc k (r_ws (checkout H g c w tgt order)) <> Some n ->
  exists co, oassoc (H (f_bytes n)) c = Some co /\ c_bytes co = f_bytes n.
Proof.
  intros H Hne g c w tgt order k n Hok Hinj Hs Hf Hp Hk Hch.
  destruct (checkout_no_loss H Hne g c w tgt order k n Hs Hk) as [E|[E|[[co E]|[f [E _]]]]].
  - contradiction.
  - congruence.
  - exists co. split; [exact E|]. apply Hinj. now apply Hok.
  - congruence.
Qed.
Print Assumptions C05_only_recoverable_replaced.

(* the statement without [stageable] is refuted by the faithful model: a user file whose content is
   not in the cache is overwritten by an unforced, promptless checkout *)
Theorem C05_no_loss_refuted_unstageable :
  exists (H : bytes -> oid) g c w tgt order k n,
    (forall b, is_nil (H b) = false) /\ kassoc k w = Some n /\
    ~ (kassoc k (r_ws (checkout H g c w tgt order)) = Some n \/ g_force g = true \/
       (exists co, oassoc (H (f_bytes n)) c = Some co) \/ (exists f, g_prompt g = Some f /\ f k = true)).
Proof.
  exists (fun b => 1 :: b), (mk_cfg false false None [copy_name] [LCopy] false 9),
         [([1; 65], mk_cobj [65] 1 1 1)],
         [([[97]], mk_fnode [85] false None false 0 1 2); ([[98]], dangling_node [1; 66])],
         [([[97]], [1; 65])], [[[97]]], [[97]], (mk_fnode [85] false None false 0 1 2).
  split; [reflexivity|]. split; [reflexivity|].
  intros [E|[E|[[co E]|[f [E _]]]]]; vm_compute in E; discriminate.
Qed.
Print Assumptions C05_no_loss_refuted_unstageable.

(* link clean-up: only recorded paths, not listed as used, unmodified since recorded *)
Theorem C05_links : forall f tab used p,
  In p (get_unused_links f tab used) ->
  exists r, In (p, r) tab /\ ~ In p used /\ token_now f p = Some r.
Proof. exact unused_sound. Qed.
Print Assumptions C05_links.

(* remove_links deletes exactly the returned paths (and what lies below them) ... *)
Theorem C05_links_remove_exact : forall f tab unused q,
  kassoc q (fst (remove_links f tab unused)) =
    if existsb (fun p => is_prefix p q) unused then None else kassoc q f.
Proof. exact remove_links_exact. Qed.
Print Assumptions C05_links_remove_exact.

(* ... and drops exactly their rows *)
Theorem C05_links_table : forall f tab unused p r,
  In (p, r) (snd (remove_links f tab unused)) <-> In (p, r) tab /\ ~ In p unused.
Proof. exact remove_links_table. Qed.
Print Assumptions C05_links_table.
