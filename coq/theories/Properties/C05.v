(* C05 - Checkout never destroys user data that is not recoverable from the cache.
   Only statements; model in Model/ObjCheckout.v, proofs in Proofs/ObjCheckoutProofs*.v.

   H is an arbitrary content hash; [order] (iteration order of the key set), the tested link
   types, the prompt, the cache and the workspace (dangling links included) are arbitrary.
   History: before /repo f4a117d the statement needed "the dry re-staging of the workspace
   succeeds" and was refuted without it (old = None after a swallowed FileNotFoundError, every key
   ADD, linked over without _remove); the refutation witness is now C05_former_witness_refuses.
   C05_refusal needs the key order to be duplicate-free (it is the iteration order of a Python set).

   ROOT deletions.  C05_no_loss above is about non-falsy directory targets, whose diff never deletes the
   ROOT entry - the model had no ROOT deletion at all, which is why it held while the code lost data
   on `checkout(path, fs, None, ...)` (finding C05:unrecoverable-lost:root-deleted-before-children,
   repaired by /repo 38c4abf).  The falsy target is now modelled (checkout_rm): every key of the old
   tree and ROOT are deleted, ROOT's guard reads the cache lookup of the old tree's .dir object, its
   removal takes everything still below it.  C05_no_loss_falsy_target holds for EVERY deletion order that
   handles every file before the root entry (the repaired loop: root last; the generated fact
   gen_delete_root_last ties it to the source) and C05_no_loss_refuted_root_first shows it is false for
   an order with the root first. *)
From Coq Require Import NArith List Bool.
From DvcData Require Import Base.Val Base.PyBase Gen.ObjCheckout Model.ObjCheckout Proofs.ObjCheckoutProofs Proofs.ObjCheckoutProofs2 Proofs.ObjCoBase Proofs.ObjCoRefusal Proofs.ObjCoRm.
Import ListNotations.
Open Scope N_scope.

(* every workspace file that checkout removed or replaced is accounted for: forced, or its
   content is the name of a cache object, or the prompt answered yes for that very path *)
Theorem C05_no_loss : forall (H : bytes -> oid) g c w tgt order k n,
  kassoc k w = Some n ->
  kassoc k (r_ws (checkout H g c w tgt order)) = Some n \/
  g_force g = true \/ (exists co, oassoc (H (f_bytes n)) c = Some co) \/
  (exists f, g_prompt g = Some f /\ f k = true).
Proof. intros H g c w tgt order k n Hk. exact (checkout_no_loss H g c w tgt order k n Hk). Qed.
Print Assumptions C05_no_loss.

(* histories: any number of checkouts, cache collections (HDrop) and user edits in one process on
   one cache - each checkout accounts for what it destroys against the cache AT THE TIME OF THAT
   CALL (no answer of an earlier call is remembered).  A memo of in_cache answers that survives a
   call (seeded change m1) breaks the correspondence with this model on two-checkout histories. *)
Theorem C05_no_loss_history : forall (H : bytes -> oid) pre s0 g tgt order k n,
  let s := hrun H pre s0 in
  kassoc k (snd s) = Some n ->
  kassoc k (snd (hstep H s (HCheckout g tgt order))) = Some n \/
  g_force g = true \/ (exists co, oassoc (H (f_bytes n)) (fst s) = Some co) \/
  (exists f, g_prompt g = Some f /\ f k = true).
Proof. intros H pre s0 g tgt order k n s Hk. simpl. exact (checkout_no_loss H g (fst s) (snd s) tgt order k n Hk). Qed.
Print Assumptions C05_no_loss_history.

(* non-vacuity: version 1 checked out, its object collected, unforced checkout of version 2 refuses
   and keeps the only copy of version 1 *)
Theorem C05_history_instance :
  let H := fun b : bytes => 1 :: b in
  let c := [([1; 65], mk_cobj [65] 1 1 1); ([1; 66], mk_cobj [66] 2 1 2)] in
  let g1 := mk_cfg true false None [copy_name] [LCopy] false 9 in
  let g2 := mk_cfg false false None [copy_name] [LCopy] false 9 in
  let k := [[97]] in
  let s := hrun H [HCheckout g1 [(k, [1; 65])] [k]; HDrop [1; 65]] (c, []) in
  option_map f_bytes (kassoc k (snd s)) = Some [65] /\ oassoc [1; 65] (fst s) = None /\
  r_out (checkout H g2 (fst s) (snd s) [(k, [1; 66])] [k]) = OPrompt k /\
  option_map f_bytes (kassoc k (snd (hstep H s (HCheckout g2 [(k, [1; 66])] [k])))) = Some [65].
Proof. vm_compute. repeat split; reflexivity. Qed.
Print Assumptions C05_history_instance.

(* falsy target (None; "remove this output"): for every cache, every value [ric] of "the old tree's .dir
   object is in the cache", every prompt and every deletion order [ds] in which each file of the workspace
   comes before the (first) root entry *)
Theorem C05_no_loss_falsy_target : forall (H : bytes -> oid), (forall b, is_nil (H b) = false) ->
  forall g c w ric ds k n,
  stageable w = true -> covered_before_root w [] ds -> kassoc k w = Some n ->
  kassoc k (r_ws (checkout_rm H g c w ric ds)) = Some n \/
  g_force g = true \/ (exists co, oassoc (H (f_bytes n)) c = Some co) \/
  (exists f, g_prompt g = Some f /\ f k = true).
Proof. intros H Hne g c w ric ds k n Hs Hc Hk. exact (rm_no_loss H Hne g c w Hs ric ds k n Hc Hk). Qed.
Print Assumptions C05_no_loss_falsy_target.

(* ... and the loop of the source does handle the root entry last *)
Theorem C05_delete_loop_root_last : Gen.ObjCheckout.gen_delete_root_last = true.
Proof. exact gen_root_last. Qed.
Print Assumptions C05_delete_loop_root_last.

(* without "root last": refuted (the defect repaired by 38c4abf, same input shape as its reproduction) *)
Theorem C05_no_loss_refuted_root_first :
  exists (H : bytes -> oid) g c w ric ds k n,
    kassoc k w = Some n /\ (forall q m, kassoc q w = Some m -> In (DKey q) ds) /\
    ~ (kassoc k (r_ws (checkout_rm H g c w ric ds)) = Some n \/ g_force g = true \/
       (exists co, oassoc (H (f_bytes n)) c = Some co) \/ (exists f, g_prompt g = Some f /\ f k = true)).
Proof. exact rm_no_loss_refuted_root_first. Qed.
Print Assumptions C05_no_loss_refuted_root_first.

(* a refusal (PromptError path) leaves that path exactly as it was before the call - whatever was
   done to other paths before the refusal *)
Theorem C05_refusal : forall (H : bytes -> oid) g c w tgt order p, NoDup order ->
  r_out (checkout H g c w tgt order) = OPrompt p ->
  kassoc p (r_ws (checkout H g c w tgt order)) = kassoc p w.
Proof. exact checkout_refusal. Qed.
Print Assumptions C05_refusal.

(* without force and without a prompt, only files whose bytes are recoverable are touched:
   the cache (intact, collision-free) holds exactly those bytes *)
Theorem C05_only_recoverable_replaced : forall (H : bytes -> oid) g c w tgt order k n,
  (forall o co, oassoc o c = Some co -> H (c_bytes co) = o) -> (forall a b, H a = H b -> a = b) ->
  g_force g = false -> g_prompt g = None ->
  kassoc k w = Some n -> kassoc k (r_ws (checkout H g c w tgt order)) <> Some n ->
  exists co, oassoc (H (f_bytes n)) c = Some co /\ c_bytes co = f_bytes n.
Proof.
  intros H g c w tgt order k n Hok Hinj Hf Hp Hk Hch.
  destruct (checkout_no_loss H g c w tgt order k n Hk) as [E|[E|[[co E]|[f [E _]]]]].
  - contradiction.
  - congruence.
  - exists co. split; [exact E|]. apply Hinj. now apply Hok.
  - congruence.
Qed.
Print Assumptions C05_only_recoverable_replaced.

(* the input that refuted the statement before f4a117d (a user file next to a dangling link, copy
   type, no force, no prompt): the model of the repaired code refuses and leaves the file alone;
   the same input with a cached old version is replaced (the hypotheses are satisfiable both ways) *)
Theorem C05_former_witness_refuses :
  let H := fun b : bytes => 1 :: b in
  let g := mk_cfg false false None [copy_name] [LCopy] false 9 in
  let c := [([1; 65], mk_cobj [65] 1 1 1)] in
  let user := mk_fnode [85] false None false 0 1 2 in
  let r := checkout H g c [([[97]], user); ([[98]], dangling_node [1; 66])] [([[97]], [1; 65])] [[[97]]] in
  r_out r = OPrompt [[97]] /\ kassoc [[97]] (r_ws r) = Some user /\
  let c2 := ([1; 85], mk_cobj [85] 2 1 1) :: c in
  let r2 := checkout H g c2 [([[97]], user)] [([[97]], [1; 65])] [[[97]]] in
  r_out r2 = ODone true /\ option_map f_bytes (kassoc [[97]] (r_ws r2)) = Some [65].
Proof. vm_compute. repeat split; reflexivity. Qed.
Print Assumptions C05_former_witness_refuses.

(* link clean-up: only recorded paths, not listed as used, unmodified since recorded *)
Theorem C05_links : forall f tab used p,
  In p (get_unused_links f tab used) ->
  exists r, In (p, r) tab /\ ~ In p used /\ token_now f p = Some r.
Proof. exact unused_sound. Qed.
Print Assumptions C05_links.

(* remove_links deletes exactly the returned paths (and what lies below them) ... *)
Theorem C05_links_remove_exact : forall f tab unused q,
  kassoc q (fst (remove_links f tab unused)) =
    if existsb (fun p => is_prefix p q) unused then None else kassoc q f.
Proof. exact remove_links_exact. Qed.
Print Assumptions C05_links_remove_exact.

(* ... and drops exactly their rows *)
Theorem C05_links_table : forall f tab unused p r,
  In (p, r) (snd (remove_links f tab unused)) <-> In (p, r) tab /\ ~ In p unused.
Proof. exact remove_links_table. Qed.
Print Assumptions C05_links_table.

(* the recorded and the current (inode, token) are compared exactly, and a directory's token is the
   full (path, mtime) list at full mtime resolution.  ENVIRONMENT HYPOTHESIS the real tokenizer
   (utils._tokenize_mtimes: md5 of the JSON of path -> st_mtime) must meet: equal tokens only for
   equal path -> mtime maps, at the resolution of st_mtime.  A tokenizer that coarsens mtimes
   (seeded change m2: int() truncation) violates it; the link histories of the harness rewrite files
   in place 0.25 s / 1 us after the recorded mtime, inside the same second, to exercise it. *)
Theorem C05_links_token_exact : forall a b, rec_eqb a b = true <-> a = b.
Proof. exact rec_eqb_spec. Qed.
Print Assumptions C05_links_token_exact.
