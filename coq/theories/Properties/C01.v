(* C01 - Object stores are content-addressed: every object is named by its own digest.
   Only statements here; the model is Model/StoreOps.v (stores = maps oid -> (bytes, mode, inode);
   operations stage / stage-with-upload / add / transfer / index save / migrate over a finite
   family of stores of either class), the proofs are Proofs/StoreOpsProofs.v (abstract digest) and
   Proofs/StoreOpsProofsExec.v (the digest the correspondence check executes).

   Inv H st  :=  for every store s of st and every  s.objs !! k = Some o :
                   named_ok H (s_alg s) k (o_bytes o)   and   (s_cls s = Local -> o_mode o = 0o444)
   named_ok H a k b := if k ends in ".dir" then k = H a b ++ ".dir" /\ b is a canonical listing
                                            else k = H a b
   WfOp (what callers outside dvc-data owe): ids handed to odb.add are truthful (named_ok); a
   transfer runs between stores of one algorithm; hashes recorded in a saved index are those of
   the files; no directory staging / directory index entries on a sha256 store (legacy
   external-output path, DESIGN section 6 "not covered").

   Leftovers.  A store directory can be reopened under the other class (OReopen).  What sits
   unprotected in it when it is opened under the local class (it was filled through the generic
   class) is a leftover: allowed to stay unprotected until an operation adds or covers it.
     InvE H E st := names as in Inv, and  s_cls s = Local -> o_mode o = 0o444 \/ E j k
     leftover_after st o E := E + (unprotected ids of store si)   for o = OReopen si Local
                              E                                   for ORot (not a dvc-data operation)
                              E - covered st o                    for every other operation
     covered st o = the ids the operation adds or covers, and their store: the id of an external add;
     the file ids and directory ids of a stage / stage-upload / index save; every id a transfer asks
     the destination about (requested + expanded); the new ids of a migrate.
   Inv = InvE with no leftovers; histories that never reopen under the local class keep Inv.

   Deviation from DESIGN: OReopen and the leftover form of the invariant are additions.  The digest hypotheses are (1) a digest never
   ends in ".dir", (2) md5-dos2unix and md5 agree on canonical listings; both are proved for
   the executable digest (C01_digest_ok), so the ..._exec theorems carry no hypothesis on H.
   The state-cache clause of WfOp ("C13's invariant") does not appear because the model hashes
   instead of consulting a cache. *)
From Coq Require Import NArith List Bool.
From DvcData Require Import Base.Val Model.Listing Model.StoreOps Gen.DbAdd Proofs.StoreOpsProofs Proofs.StoreOpsProofsExec Proofs.StoreOpsTie.
Import ListNotations.
Open Scope N_scope.

Definition DigestOk (H : alg -> list N -> oid) : Prop :=
  (forall a b, is_dir_oid (H a b) = false) /\
  (forall t, H Md5D2U (as_bytes false t) = H Md5 (as_bytes false t)).

Theorem C01_init : forall H cfg, Inv H (init_state cfg).
Proof. exact C01_init. Qed.
Print Assumptions C01_init.

(* one step; the operation does not reopen a directory under the local class *)
Theorem C01_step : forall H, DigestOk H -> forall st o,
  Inv H st -> WfOp H st o -> keeps_class o -> Inv H (step H st o).
Proof. intros H [H1 H2]. exact (C01_step H H1 H2). Qed.
Print Assumptions C01_step.

(* one step of any kind, with leftovers *)
Theorem C01_step_leftover : forall H, DigestOk H -> forall E st o,
  InvE H E st -> WfOp H st o -> InvE H (leftover_after H st o E) (step H st o).
Proof. intros H [H1 H2]. exact (C01_step_leftover H H1 H2). Qed.
Print Assumptions C01_step_leftover.

(* add protects every oid it is asked for, copied or already present (also a leftover) *)
Theorem C01_add_covers : forall H, DigestOk H -> forall E st si b k s o,
  InvE H E st -> WfOp H st (OAdd si b k) ->
  nth_error (st_stores (step H st (OAdd si b k))) si = Some s -> s_cls s = Local ->
  alookup k (s_objs s) = Some o -> o_mode o = mode_ro.
Proof. intros H [H1 H2]. exact (C01_add_covers H H1 H2). Qed.
Print Assumptions C01_add_covers.

(* ... and so does every operation of dvc-data with the ids it adds or covers (leftovers included) *)
Theorem C01_covers : forall H, DigestOk H -> forall E st o s k ob,
  InvE H E st -> WfOp H st o -> dvc_op o ->
  nth_error (st_stores (step H st o)) (fst (covered H st o)) = Some s -> s_cls s = Local ->
  In k (snd (covered H st o)) -> alookup k (s_objs s) = Some ob -> o_mode ob = mode_ro.
Proof. intros H [H1 H2]. exact (C01_covers H H1 H2). Qed.
Print Assumptions C01_covers.

(* unbounded: any finite history, and the invariant holds after every step (every prefix) *)
Theorem C01_history : forall H, DigestOk H -> forall cfg ops n,
  WfHist H (init_state cfg) ops -> KeepsClass ops ->
  Inv H (fold_left (step H) (firstn n ops) (init_state cfg)).
Proof. intros H [H1 H2]. exact (C01_history H H1 H2). Qed.
Print Assumptions C01_history.

(* any history, reopening included: the invariant up to the leftovers accumulated so far *)
Theorem C01_history_leftover : forall H, DigestOk H -> forall cfg ops n,
  WfHist H (init_state cfg) ops ->
  InvE H (leftover_hist H (init_state cfg) (firstn n ops) lempty)
       (fold_left (step H) (firstn n ops) (init_state cfg)).
Proof. intros H [H1 H2]. exact (C01_history_leftover H H1 H2). Qed.
Print Assumptions C01_history_leftover.

(* from any state satisfying the invariant (e.g. a store that already holds objects) *)
Theorem C01_history_from : forall H, DigestOk H -> forall st ops,
  Inv H st -> WfHist H st ops -> KeepsClass ops -> Inv H (fold_left (step H) ops st).
Proof. intros H [H1 H2]. exact (C01_history_from H H1 H2). Qed.
Print Assumptions C01_history_from.

(* no operation changes the algorithm of a store (the name rule of a store is fixed) *)
Theorem C01_alg_fixed : forall H, DigestOk H -> forall E st o j,
  InvE H E st -> WfOp H st o -> alg_at (step H st o) j = alg_at st j.
Proof. intros H [H1 H2]. exact (C01_step_alg H H1 H2). Qed.
Print Assumptions C01_alg_fixed.

(* the digest that is executed (Gallina MD5, MD5 after dos2unix, SHA-256) meets both hypotheses *)
Theorem C01_digest_ok : DigestOk H_exec.
Proof. split; [exact H_exec_not_dir|exact H_exec_d2u_listing]. Qed.
Print Assumptions C01_digest_ok.

Theorem C01_history_exec : forall cfg ops n,
  WfHist H_exec (init_state cfg) ops -> KeepsClass ops ->
  Inv H_exec (fold_left (step H_exec) (firstn n ops) (init_state cfg)).
Proof. exact C01_history_exec. Qed.
Print Assumptions C01_history_exec.

(* with the decidable side conditions that the correspondence run evaluates (inside Coq) on every
   generated history: whenever the WfOp boolean is true - it is reported per step - every prefix of
   the model run satisfies the invariant (up to leftovers when directories are reopened), and the
   run is compared byte for byte with the real stores *)
Theorem C01_history_checked_exec : forall cfg ops n,
  wf_hist_b H_exec (init_state cfg) ops = true -> forallb keeps_class_b ops = true ->
  Inv H_exec (fold_left (step H_exec) (firstn n ops) (init_state cfg)).
Proof. exact C01_history_checked_exec. Qed.
Print Assumptions C01_history_checked_exec.

Theorem C01_history_leftover_checked_exec : forall cfg ops n,
  wf_hist_b H_exec (init_state cfg) ops = true ->
  InvE H_exec (leftover_hist H_exec (init_state cfg) (firstn n ops) lempty)
       (fold_left (step H_exec) (firstn n ops) (init_state cfg)).
Proof. exact C01_history_leftover_checked_exec. Qed.
Print Assumptions C01_history_leftover_checked_exec.

(* Verifying transfers (verify=True), from ANY source - rotten on disk (ORot, an external event that
   is not a dvc-data operation and is excluded from WfOp), misnamed, of another algorithm: the
   destination never retains an object whose digest is not its name.  StemP is the name rule that
   verification itself enforces (HashFileDB.check compares digest and id up to the first "."):
     StemP H st j [] := every object (k, o) of store j has  stem (H alg (o_bytes o)) = stem k.
   PARTIAL with respect to the wish "Inv of the destination is preserved from a rotten source":
   the full named_ok also asks a ".dir" object to be a canonical listing, which verification does
   not look at (a non-canonical blob whose digest happens to be the id passes); what is missing is
   exactly that clause.  For reachable states (InvE) the premise holds (C01_verifying_transfer_exec). *)
Theorem C01_verifying_transfer_partial : forall H st src dst ids sh,
  StemP H st dst [] -> StemP H (step H st (OTransfer src dst ids sh true)) dst [].
Proof. exact C01_verifying_transfer_partial. Qed.
Print Assumptions C01_verifying_transfer_partial.

Theorem C01_verifying_transfer_exec : forall E st src dst ids sh,
  InvE H_exec E st -> StemP H_exec (step H_exec st (OTransfer src dst ids sh true)) dst [].
Proof. exact C01_verifying_transfer_exec. Qed.
Print Assumptions C01_verifying_transfer_exec.

(* ---- the tie to the source: the add / migrate steps of the model ARE the decisions the translator
   reads from /repo's HashFileDB.add, add_update_tree and db/migrate.py on every run (Gen/DbAdd.v).
   g_add / g_migrate (Proofs/StoreOpsTie.v) interpret the GENERATED definitions only. ---- *)

(* odb.add without a verify argument (build, index save, external add): copies as super().add is
   given them, then the generated post loop - over the distinct requested oids: protect *)
Theorem C01_tie_add : forall H st si items hl ce,
  g_add H None model_store_verify hl ce (cp_bytes items) st si (map fst items)
  = (add_copy st si items ce, false).
Proof. exact add_copy_tie. Qed.
Print Assumptions C01_tie_add.

(* add_update_tree: the generated arguments of its add (hardlink, no per-call verify, check_exists) *)
Theorem C01_tie_tree_add : forall H st si d listing,
  g_add H tree_add_percall_verify model_store_verify tree_add_hardlink tree_add_check_exists
        (cp_bytes [(d, listing)]) st si [d]
  = (add_copy st si [(d, listing)] true, false).
Proof. exact tree_add_tie. Qed.
Print Assumptions C01_tie_tree_add.

(* transfer's add with verify=True (new ids only): generated pre-add check (finds nothing), copies,
   generated post loop: check - a mismatch is removed and handled, a missing file handled - then protect *)
Theorem C01_tie_add_verify : forall H st si items hl sv,
  (forall k, In k (map fst items) -> store_has st si k = false) ->
  g_add H (Some true) sv hl false (cp_bytes items) st si (map fst items)
  = (add_new H true st si items, false).
Proof. exact add_new_verify_tie. Qed.
Print Assumptions C01_tie_add_verify.

Theorem C01_tie_add_noverify : forall H st si items hl sv,
  g_add H (Some false) sv hl false (cp_bytes items) st si (map fst items)
  = (add_new H false st si items, false).
Proof. exact add_new_plain_tie. Qed.
Print Assumptions C01_tie_add_noverify.

(* statement order of add (the one state transaction after the post loop), swallowed exceptions,
   handlers *)
Theorem C01_tie_add_order :
  add_order = [SEffVerify; SNormalise; SPre; SCopy; SPaths; SPost; SSave; SReturn]
  /\ pre_swallows = [ExcObjectFormat; ExcFileNotFound]
  /\ post_handler ExcObjectFormat = Some HReport /\ post_handler ExcFileNotFound = Some HPass
  /\ copy_reports = true /\ save_over = OidsDistinct /\ save_value = SaveOid.
Proof. exact add_order_tie. Qed.
Print Assumptions C01_tie_add_order.

(* migrate(prepare(src, dest)): lists the SOURCE's objects, re-hashes them with the DESTINATION's
   algorithm from the SOURCE's file system, new oid = digest + ".dir" exactly for ids ending in
   ".dir", one add INTO the destination with hardlink=True, no per-call verify, check_exists default *)
Theorem C01_tie_migrate : forall H st src dst order fs_links,
  migrate_op H st src dst order fs_links = g_migrate H st src dst order fs_links.
Proof. exact migrate_tie. Qed.
Print Assumptions C01_tie_migrate.

Theorem C01_tie_migrate_oid : forall k h,
  migrate_oid k h = h ++ (if is_dir_oid k then dot_dir else []).
Proof. exact migrate_oid_tie. Qed.
Print Assumptions C01_tie_migrate_oid.

(* the restriction WfOp cannot simply be dropped: without it the (faithful) model leaves the
   invariant - witness: staging a directory into a sha256 store, the legacy external-output path,
   which the real code mirrors byte for byte (harness, malformed stream).  Not a finding: it is
   outside the property's quantifier (DESIGN section 6 C01 "not covered"). *)
Theorem C01_wfop_needed :
  exists cfg ops, Inv H_exec (init_state cfg) /\ ~ Inv H_exec (run H_exec (init_state cfg) ops).
Proof. exact C01_wfop_needed. Qed.
Print Assumptions C01_wfop_needed.
