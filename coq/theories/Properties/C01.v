(* C01 - Object stores are content-addressed: every object is named by its own digest.
   Only statements here; the model is Model/StoreOps.v (stores = maps oid -> (bytes, mode, inode);
   operations stage / stage-with-upload / add / transfer / index save / migrate over a finite
   family of stores of either class), the proofs are Proofs/StoreOpsProofs.v (abstract digest) and
   Proofs/StoreOpsProofsExec.v (the digest the correspondence check executes).

   Inv H st  :=  for every store s of st and every  s.objs !! k = Some o :
                   named_ok H (s_alg s) k (o_bytes o)   and   (s_cls s = Local -> o_mode o = 0o444)
   named_ok H a k b := if k ends in ".dir" then k = H a b ++ ".dir" /\ b is a canonical listing
                                            else k = H a b
   WfOp (what callers outside dvc-data owe): ids handed to odb.add are truthful (named_ok); a
   transfer runs between stores of one algorithm; hashes recorded in a saved index are those of
   the files; no directory staging / directory index entries on a sha256 store (legacy
   external-output path, DESIGN section 6 "not covered").

   Leftovers.  A store directory can be reopened under the other class (OReopen).  What sits
   unprotected in it when it is opened under the local class (it was filled through the generic
   class) is a leftover: allowed to stay unprotected until an operation adds or covers it.
     InvE H E st := names as in Inv, and  s_cls s = Local -> o_mode o = 0o444 \/ E j k
     leftover_after st o E := E + (unprotected ids of store si)   for o = OReopen si Local
                              E - {(si, k)}                       for o = OAdd si _ k
                              E                                   otherwise (no operation adds a leftover)
   Inv = InvE with no leftovers; histories that never reopen under the local class keep Inv.

   Deviation from DESIGN: OReopen and the leftover form of the invariant are additions.  The digest hypotheses are (1) a digest never
   ends in ".dir", (2) md5-dos2unix and md5 agree on canonical listings; both are proved for
   the executable digest (C01_digest_ok), so the ..._exec theorems carry no hypothesis on H.
   The state-cache clause of WfOp ("C13's invariant") does not appear because the model hashes
   instead of consulting a cache. *)
From Coq Require Import NArith List Bool.
From DvcData Require Import Base.Val Model.Listing Model.StoreOps Proofs.StoreOpsProofs Proofs.StoreOpsProofsExec.
Import ListNotations.
Open Scope N_scope.

Definition DigestOk (H : alg -> list N -> oid) : Prop :=
  (forall a b, is_dir_oid (H a b) = false) /\
  (forall t, H Md5D2U (as_bytes false t) = H Md5 (as_bytes false t)).

Theorem C01_init : forall H cfg, Inv H (init_state cfg).
Proof. exact C01_init. Qed.
Print Assumptions C01_init.

(* one step; the operation does not reopen a directory under the local class *)
Theorem C01_step : forall H, DigestOk H -> forall st o,
  Inv H st -> WfOp H st o -> keeps_class o -> Inv H (step H st o).
Proof. intros H [H1 H2]. exact (C01_step H H1 H2). Qed.
Print Assumptions C01_step.

(* one step of any kind, with leftovers *)
Theorem C01_step_leftover : forall H, DigestOk H -> forall E st o,
  InvE H E st -> WfOp H st o -> InvE H (leftover_after st o E) (step H st o).
Proof. intros H [H1 H2]. exact (C01_step_leftover H H1 H2). Qed.
Print Assumptions C01_step_leftover.

(* add protects every oid it is asked for, copied or already present (also a leftover) *)
Theorem C01_add_covers : forall H, DigestOk H -> forall E st si b k s o,
  InvE H E st -> WfOp H st (OAdd si b k) ->
  nth_error (st_stores (step H st (OAdd si b k))) si = Some s -> s_cls s = Local ->
  alookup k (s_objs s) = Some o -> o_mode o = mode_ro.
Proof. intros H [H1 H2]. exact (C01_add_covers H H1 H2). Qed.
Print Assumptions C01_add_covers.

(* unbounded: any finite history, and the invariant holds after every step (every prefix) *)
Theorem C01_history : forall H, DigestOk H -> forall cfg ops n,
  WfHist H (init_state cfg) ops -> KeepsClass ops ->
  Inv H (fold_left (step H) (firstn n ops) (init_state cfg)).
Proof. intros H [H1 H2]. exact (C01_history H H1 H2). Qed.
Print Assumptions C01_history.

(* any history, reopening included: the invariant up to the leftovers accumulated so far *)
Theorem C01_history_leftover : forall H, DigestOk H -> forall cfg ops n,
  WfHist H (init_state cfg) ops ->
  InvE H (leftover_hist H (init_state cfg) (firstn n ops) lempty)
       (fold_left (step H) (firstn n ops) (init_state cfg)).
Proof. intros H [H1 H2]. exact (C01_history_leftover H H1 H2). Qed.
Print Assumptions C01_history_leftover.

(* from any state satisfying the invariant (e.g. a store that already holds objects) *)
Theorem C01_history_from : forall H, DigestOk H -> forall st ops,
  Inv H st -> WfHist H st ops -> KeepsClass ops -> Inv H (fold_left (step H) ops st).
Proof. intros H [H1 H2]. exact (C01_history_from H H1 H2). Qed.
Print Assumptions C01_history_from.

(* no operation changes the algorithm of a store (the name rule of a store is fixed) *)
Theorem C01_alg_fixed : forall H, DigestOk H -> forall E st o j,
  InvE H E st -> WfOp H st o -> alg_at (step H st o) j = alg_at st j.
Proof. intros H [H1 H2]. exact (C01_step_alg H H1 H2). Qed.
Print Assumptions C01_alg_fixed.

(* the digest that is executed (Gallina MD5, MD5 after dos2unix, SHA-256) meets both hypotheses *)
Theorem C01_digest_ok : DigestOk H_exec.
Proof. split; [exact H_exec_not_dir|exact H_exec_d2u_listing]. Qed.
Print Assumptions C01_digest_ok.

Theorem C01_history_exec : forall cfg ops n,
  WfHist H_exec (init_state cfg) ops -> KeepsClass ops ->
  Inv H_exec (fold_left (step H_exec) (firstn n ops) (init_state cfg)).
Proof. exact C01_history_exec. Qed.
Print Assumptions C01_history_exec.

(* with the decidable side conditions that the correspondence run evaluates (inside Coq) on every
   generated history: whenever the WfOp boolean is true - it is reported per step - every prefix of
   the model run satisfies the invariant (up to leftovers when directories are reopened), and the
   run is compared byte for byte with the real stores *)
Theorem C01_history_checked_exec : forall cfg ops n,
  wf_hist_b H_exec (init_state cfg) ops = true -> forallb keeps_class_b ops = true ->
  Inv H_exec (fold_left (step H_exec) (firstn n ops) (init_state cfg)).
Proof. exact C01_history_checked_exec. Qed.
Print Assumptions C01_history_checked_exec.

Theorem C01_history_leftover_checked_exec : forall cfg ops n,
  wf_hist_b H_exec (init_state cfg) ops = true ->
  InvE H_exec (leftover_hist H_exec (init_state cfg) (firstn n ops) lempty)
       (fold_left (step H_exec) (firstn n ops) (init_state cfg)).
Proof. exact C01_history_leftover_checked_exec. Qed.
Print Assumptions C01_history_leftover_checked_exec.

(* Verifying transfers (verify=True), from ANY source - rotten on disk (ORot, an external event that
   is not a dvc-data operation and is excluded from WfOp), misnamed, of another algorithm: the
   destination never retains an object whose digest is not its name.  StemP is the name rule that
   verification itself enforces (HashFileDB.check compares digest and id up to the first "."):
     StemP H st j [] := every object (k, o) of store j has  stem (H alg (o_bytes o)) = stem k.
   PARTIAL with respect to the wish "Inv of the destination is preserved from a rotten source":
   the full named_ok also asks a ".dir" object to be a canonical listing, which verification does
   not look at (a non-canonical blob whose digest happens to be the id passes); what is missing is
   exactly that clause.  For reachable states (InvE) the premise holds (C01_verifying_transfer_exec). *)
Theorem C01_verifying_transfer_partial : forall H st src dst ids sh,
  StemP H st dst [] -> StemP H (step H st (OTransfer src dst ids sh true)) dst [].
Proof. exact C01_verifying_transfer_partial. Qed.
Print Assumptions C01_verifying_transfer_partial.

Theorem C01_verifying_transfer_exec : forall E st src dst ids sh,
  InvE H_exec E st -> StemP H_exec (step H_exec st (OTransfer src dst ids sh true)) dst [].
Proof. exact C01_verifying_transfer_exec. Qed.
Print Assumptions C01_verifying_transfer_exec.

(* the restriction WfOp cannot simply be dropped: without it the (faithful) model leaves the
   invariant - witness: staging a directory into a sha256 store, the legacy external-output path,
   which the real code mirrors byte for byte (harness, malformed stream).  Not a finding: it is
   outside the property's quantifier (DESIGN section 6 C01 "not covered"). *)
Theorem C01_wfop_needed :
  exists cfg ops, Inv H_exec (init_state cfg) /\ ~ Inv H_exec (run H_exec (init_state cfg) ops).
Proof. exact C01_wfop_needed. Qed.
Print Assumptions C01_wfop_needed.
