(* C10 - Object checkout converges, is idempotent, honours link types, spares the cache.
   Only statements; model in Model/ObjCheckout.v, proofs in Proofs/ObjCheckoutProofs2.v.

   Deviation from DESIGN (time): C10_converges (restricted to readable priors, i.e. [stageable w]),
   C10_idempotent and C10_link_record are NOT proved here; they are established by the oracle and
   the correspondence only (walk = target, second call returns None and changes nothing, saved
   record = recomputed (inode, token)).  The intended statement is

     C10_converges : g_force g = true -> stageable w = true -> g_links g <> [] ->
        (forall k o, kassoc k tgt = Some o -> o <> [] /\ exists co, oassoc o c = Some co) ->
        NoDup order -> (forall k, is_some (kassoc k w) || is_some (kassoc k tgt) = true -> In k order) ->
        intact c -> injective H ->
        forall k, option_map f_bytes (kassoc k (r_ws (checkout H g c w tgt order))) = expected c tgt k

   Without [stageable w] it is refuted by the faithful model (C10_converges_refuted, the recorded
   finding C10:does-not-converge:old-tree-build-failed): a dangling link makes the dry re-staging
   fail, checkout goes on without an old tree and never deletes anything.  What is proved, unbounded:
   - C10_cache_untouched: no step of the model writes the cache (that the implementation has no
     such step is what the correspondence's byte snapshot measures);
   - C10_relink_partial: the decision the relinking checkout rests on - the *generated*
     _needs_relink answers "no" exactly for files that already have the single configured link
     type (inode of the cache object for hard links, destination = cache path for symlinks).
     This is the obligation that finding 7.7 refuted before commit a8647e5.  The full statement
     (relink -> forall file, kind ws' file = configured type) additionally needs the per-path
     frame argument over run_files. *)
From Coq Require Import NArith List Bool.
From DvcData Require Import Base.Val Base.PyBase Gen.PyTypes Gen.Relink Model.ObjCheckout Proofs.ObjCheckoutProofs Proofs.ObjCheckoutProofs2.
Import ListNotations.
Open Scope N_scope.

Theorem C10_cache_untouched : forall H g c w tgt order, r_cache (checkout H g c w tgt order) = c.
Proof. exact checkout_cache_untouched. Qed.
Print Assumptions C10_cache_untouched.

Theorem C10_relink_partial : forall t path m cm o, o <> [] ->
  (needs_relink path (mk_cacheinfo [lkind_name t] (fun x => x)) m cm (Some o) = false <-> has_kind t m cm o).
Proof.
  intros t path m cm o Ho. split.
  - now apply needs_relink_sound.
  - now apply needs_relink_complete.
Qed.
Print Assumptions C10_relink_partial.

(* the target's files and bytes, as a function of the path *)
Definition expected (c : cache) (tgt : list (key * oid)) (k : key) : option bytes :=
  match kassoc k tgt with Some o => option_map c_bytes (oassoc o c) | None => None end.

(* full statement (no restriction on the prior workspace): refuted.  Forced checkout, cached target,
   every key in the order, usable link type - and a file outside the target survives because the
   workspace holds a dangling symbolic link. *)
Theorem C10_converges_refuted :
  exists (H : bytes -> oid) g c w tgt order,
    g_force g = true /\ g_links g <> [] /\
    (forall k o, kassoc k tgt = Some o -> exists co, oassoc o c = Some co) /\
    (forall k, (is_some (kassoc k w) || is_some (kassoc k tgt))%bool = true -> In k order) /\
    ~ (forall k, option_map f_bytes (kassoc k (r_ws (checkout H g c w tgt order))) = expected c tgt k).
Proof.
  exists (fun b => 1 :: b), (mk_cfg true false None [hardlink_name] [LHard] false 9),
         [([1; 65], mk_cobj [65] 1 1 1)],
         [([[97]], mk_fnode [67] false None false 0 1 2); ([[98]], dangling_node [1; 66])],
         [([[122]], [1; 65])], [[[122]]; [[97]]; [[98]]].
  split; [reflexivity|]. split; [discriminate|]. split.
  - intros k o. simpl. destruct (key_eqb k [[122]]); [|discriminate].
    intros E. injection E as <-. eexists. reflexivity.
  - split.
    + intros k. simpl.
      destruct (key_eqb k [[97]]) eqn:E1; [apply ObjCheckoutProofs.key_eqb_spec in E1; subst; simpl; auto|].
      destruct (key_eqb k [[98]]) eqn:E2; [apply ObjCheckoutProofs.key_eqb_spec in E2; subst; simpl; auto|].
      destruct (key_eqb k [[122]]) eqn:E3; [apply ObjCheckoutProofs.key_eqb_spec in E3; subst; simpl; auto|].
      discriminate.
    + intros Hall. specialize (Hall [[97]]). vm_compute in Hall. discriminate.
Qed.
Print Assumptions C10_converges_refuted.

(* the same input with a readable prior (no dangling link) converges, the second call has nothing
   to do and leaves the workspace alone *)
Theorem C10_converges_instance :
  let H := fun b : bytes => 1 :: b in
  let g := mk_cfg true false None [hardlink_name] [LHard] true 9 in
  let c := [([1; 65], mk_cobj [65] 1 1 1)] in
  let tgt := [([[122]], [1; 65])] in
  let order := [[[122]]; [[97]]] in
  let r := checkout H g c [([[97]], mk_fnode [67] false None false 0 1 2)] tgt order in
  r_out r = ODone true /\
  map (fun kn => (fst kn, f_bytes (snd kn))) (r_ws r) = [([[122]], [65])] /\
  r_links r = Some [([[122]], 1)] /\
  let r2 := checkout H g c (r_ws r) tgt order in
  r_out r2 = ONothing /\ r_ws r2 = r_ws r.
Proof. vm_compute. repeat split; reflexivity. Qed.
Print Assumptions C10_converges_instance.
