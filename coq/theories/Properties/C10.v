(* C10 - Object checkout converges, is idempotent, honours link types, spares the cache.
   Only statements; model in Model/ObjCheckout.v, proofs in Proofs/ObjCo*.v, ObjCheckoutProofs2.v.

   Common hypotheses of the convergence family ([Conv], below): arbitrary content hash H with
   non-empty values and no collision; a READABLE prior workspace ([stageable w]: no dangling
   symbolic link; paths agree in kind with the target by construction of the model: a workspace is
   a map path -> file); the target's objects are in the (intact) cache; force; at least one usable
   link type (test_links result t0 :: _ - arbitrary: copy, hardlink or symlink); an arbitrary
   duplicate-free iteration order of the key set that covers the keys.  Store classes differ only
   in cache.check, which the model abstracts as "the object is present and intact" (C07).

   Without [stageable w] C10_converges is refuted by the faithful model (C10_converges_refuted, the
   recorded finding C10:does-not-converge:old-tree-build-failed).

   C10_relink, precisely: after a relinking forced checkout every file is (a) a fresh link of the
   FIRST type test_links reports usable, or (b) an independent copy kept because the first
   CONFIGURED type is "copy" (cache.unprotect), or (c) left alone because the generated
   _needs_relink found it to already have one of the LISTED types ("reflink" accepts a copy) - this
   is what the code does with fallback lists, which is weaker than "the first available type".  For
   a single configured type the three cases collapse to "has that type" (C10_relink_single), with
   the documented exception: a hard link of an empty object is an independent empty file.

   Single-file targets (the checked-out path itself, ROOT key without old meta): C10_single_converges,
   C10_single_idempotent, C10_single_link_record over Model checkout1, tied to the real code by the
   same correspondence (harness/props/_objcheckout_single.py).

   The deciders of _remove / _relink / _checkout_file and two facts about the loops of _checkout are
   REGENERATED from the source (Gen/ObjCheckout.v) and tied to the readings used in the proofs by
   Proofs/ObjCoTie.v, which every theorem of the convergence family depends on. *)
From Coq Require Import NArith List Bool.
From DvcData Require Import Base.Val Base.PyBase Gen.PyTypes Gen.Relink Model.ObjCheckout Proofs.ObjCheckoutProofs Proofs.ObjCheckoutProofs2 Proofs.ObjCoBase Proofs.ObjCoRelinkList Proofs.ObjCoForced Proofs.ObjCoIdem Proofs.ObjCoRelink Proofs.ObjCoSingle.
Import ListNotations.
Open Scope N_scope.

Definition cached_target (c : cache) (tgt : list (key * oid)) : Prop :=
  forall k o, kassoc k tgt = Some o ->
    is_nil o = false /\ HashInfo_isdir (hi o) = false /\ exists co, oassoc o c = Some co.

Record Conv (H : bytes -> oid) (g : cfg) (c : cache) (w : ws) (tgt : list (key * oid))
            (order : list key) (t0 : lkind) (lrest : list lkind) : Prop := {
  cv_hash : forall b, is_nil (H b) = false;
  cv_nocoll : forall a b, H a = H b -> a = b;
  cv_readable : stageable w = true;
  cv_cached : cached_target c tgt;
  cv_intact : forall o co, oassoc o c = Some co -> H (c_bytes co) = o;
  cv_force : g_force g = true;
  cv_links : g_links g = t0 :: lrest;
  cv_nodup : NoDup order;
  cv_cover : forall k, (is_some (kassoc k w) || is_some (kassoc k tgt))%bool = true -> In k order }.

Theorem C10_cache_untouched : forall H g c w tgt order, r_cache (checkout H g c w tgt order) = c.
Proof. exact checkout_cache_untouched. Qed.
Print Assumptions C10_cache_untouched.

(* files ws' = files target: exactly the target's paths, each with the bytes of its cache object *)
Theorem C10_converges : forall H g c w tgt order t0 lrest, Conv H g c w tgt order t0 lrest ->
  let r := checkout H g c w tgt order in
  (r_out r = ONothing \/ r_out r = ODone (negb (g_relink g))) /\
  forall k, option_map f_bytes (kassoc k (r_ws r)) = expected c tgt k.
Proof.
  intros H g c w tgt order t0 lrest [h1 h2 h3 h4 h5 h6 h7 h8 h9] r.
  destruct (checkout_forced H g c w tgt order h1 h3 h4 h6 t0 lrest h7 h8) as [Ho [Hf _]].
  split; [exact Ho|]. intros k. fold r in Hf. rewrite Hf.
  exact (forced_converges H g c w tgt order h1 h3 h4 h6 t0 lrest h7 h5 h2 h9 k).
Qed.
Print Assumptions C10_converges.

(* a second checkout of the result (any flags but relink, any order) reports nothing to do, changes
   nothing and saves no record *)
Theorem C10_idempotent : forall H g c w tgt order t0 lrest, Conv H g c w tgt order t0 lrest ->
  let ws' := r_ws (checkout H g c w tgt order) in
  forall g2 order2, g_relink g2 = false ->
    checkout H g2 c ws' tgt order2 = mk_result ONothing ws' c None.
Proof.
  intros H g c w tgt order t0 lrest Hc ws' g2 order2 Hr.
  pose proof (C10_converges H g c w tgt order t0 lrest Hc) as [_ Hconv].
  destruct Hc as [h1 h2 h3 h4 h5 h6 h7 h8 h9].
  destruct (checkout_forced H g c w tgt order h1 h3 h4 h6 t0 lrest h7 h8) as [_ [_ [Hu _]]].
  apply second_plain; auto. now apply stageable_unb.
Qed.
Print Assumptions C10_idempotent.

(* ... and a relinking second call under a single configured type re-links nothing when every file
   already has that type (true after a relinking first call except for empty files under type
   hardlink, which are re-created every time - documented behaviour of dvc_objects) *)
Theorem C10_idempotent_relink : forall H g c w tgt order t0 lrest, Conv H g c w tgt order t0 lrest ->
  let ws' := r_ws (checkout H g c w tgt order) in
  forall g2 order2 t, g_relink g2 = true -> g_types g2 = [lkind_name t] ->
    (forall k n o co, kassoc k ws' = Some n -> kassoc k tgt = Some o -> oassoc o c = Some co ->
                      has_kind t (meta_of n) (Some (cmeta_of co)) o) ->
    let r2 := checkout H g2 c ws' tgt order2 in
    r_out r2 = ONothing /\ r_ws r2 = ws'.
Proof.
  intros H g c w tgt order t0 lrest Hc ws' g2 order2 t Hr Hty Hk r2.
  pose proof (C10_converges H g c w tgt order t0 lrest Hc) as [_ Hconv].
  destruct Hc as [h1 h2 h3 h4 h5 h6 h7 h8 h9].
  destruct (checkout_forced H g c w tgt order h1 h3 h4 h6 t0 lrest h7 h8) as [_ [_ [Hu _]]].
  subst r2. rewrite (second_relink H g2 c ws' tgt order2 h1 (proj2 (stageable_unb ws') Hu) h4 h5 Hconv t Hr Hty Hk).
  split; reflexivity.
Qed.
Print Assumptions C10_idempotent_relink.

(* link types after a relinking checkout, fallback lists included (see the header) *)
Theorem C10_relink : forall H g c w tgt order t0 lrest, Conv H g c w tgt order t0 lrest ->
  g_relink g = true ->
  forall k n, kassoc k (r_ws (checkout H g c w tgt order)) = Some n ->
  exists o co, kassoc k tgt = Some o /\ oassoc o c = Some co /\
    (n = link_node t0 o co (g_now g) \/
     (cache_is_copy g = true /\ has_kind LCopy (meta_of n) (Some (cmeta_of co)) o) \/
     (exists t, listed t (g_types g) /\ has_kind t (meta_of n) (Some (cmeta_of co)) o)).
Proof.
  intros H g c w tgt order t0 lrest [h1 h2 h3 h4 h5 h6 h7 h8 h9] Hr k n Hk.
  destruct (checkout_forced H g c w tgt order h1 h3 h4 h6 t0 lrest h7 h8) as [_ [Hf _]].
  rewrite Hf in Hk. exact (forced_relink H g c w tgt order h1 h3 h4 h6 t0 lrest h7 h9 k n Hr Hk).
Qed.
Print Assumptions C10_relink.

(* single configured (and usable) type: every file has exactly that type *)
Theorem C10_relink_single : forall H g c w tgt order t, Conv H g c w tgt order t [] ->
  g_relink g = true -> g_types g = [lkind_name t] ->
  forall k n, kassoc k (r_ws (checkout H g c w tgt order)) = Some n ->
  exists o co, kassoc k tgt = Some o /\ oassoc o c = Some co /\ node_kind t n co o.
Proof.
  intros H g c w tgt order t [h1 h2 h3 h4 h5 h6 h7 h8 h9] Hr Hty k n Hk.
  destruct (checkout_forced H g c w tgt order h1 h3 h4 h6 t [] h7 h8) as [_ [Hf _]].
  rewrite Hf in Hk. exact (forced_relink_single H g c w tgt order h1 h3 h4 h6 t h7 Hty h9 Hr k n Hk).
Qed.
Print Assumptions C10_relink_single.

(* the decision it rests on: the generated _needs_relink, single type, both directions *)
Theorem C10_relink_decision : forall t path m cm o, o <> [] ->
  (needs_relink path (mk_cacheinfo [lkind_name t] (fun x => x)) m cm (Some o) = false <-> has_kind t m cm o).
Proof.
  intros t path m cm o Ho. split.
  - now apply needs_relink_sound.
  - now apply needs_relink_complete.
Qed.
Print Assumptions C10_relink_decision.

(* the saved link record (what _save_link tokenises, path |-> mtime) is exactly the path |-> mtime
   map of the resulting workspace; the inode half of the record is the workspace root's, which the
   model does not represent (judged by the oracle) *)
Theorem C10_link_record : forall H g c w tgt order t0 lrest, Conv H g c w tgt order t0 lrest ->
  let r := checkout H g c w tgt order in
  forall rec, r_links r = Some rec ->
  forall k m, In (k, m) rec <-> exists n, kassoc k (r_ws r) = Some n /\ f_mtime n = m.
Proof.
  intros H g c w tgt order t0 lrest [h1 h2 h3 h4 h5 h6 h7 h8 h9] r rec Hrec k m.
  destruct (checkout_forced H g c w tgt order h1 h3 h4 h6 t0 lrest h7 h8) as [_ [Hf [_ Hl]]].
  fold r in Hf, Hl. rewrite (Hl rec Hrec), Hf.
  exact (forced_record H g c w tgt order h1 h3 h4 h6 t0 lrest h7 h9 k m).
Qed.
Print Assumptions C10_link_record.

(* ---- single-file targets (the ROOT key: the checked-out path itself; Model checkout1).  The prior
   path is arbitrary (absent, any kind, even a dangling link); the target object is in the intact
   cache; force; at least one usable link type. *)
Record Conv1 (H : bytes -> oid) (g : cfg) (c : cache) (o : oid) (co : cobj) (t0 : lkind) (lrest : list lkind) : Prop := {
  c1_hash : forall b, is_nil (H b) = false;
  c1_nocoll : forall a b, H a = H b -> a = b;
  c1_oid : is_nil o = false /\ HashInfo_isdir (hi o) = false;
  c1_cached : oassoc o c = Some co;
  c1_intact : forall o' co', oassoc o' c = Some co' -> H (c_bytes co') = o';
  c1_force : g_force g = true;
  c1_links : g_links g = t0 :: lrest }.

(* the path ends up as a readable file with the bytes of the target's cache object *)
Theorem C10_single_converges : forall H g c o co t0 lrest cur, Conv1 H g c o co t0 lrest ->
  let r := checkout1 H g c cur o in
  (r_out r = ONothing \/ r_out r = ODone (negb (g_relink g))) /\
  exists n, kassoc root_key (r_ws r) = Some n /\ f_broken n = false /\ f_bytes n = c_bytes co.
Proof.
  intros H g c o co t0 lrest cur [h1 h2 [h3 h3'] h4 h5 h6 h7] r.
  destruct (single_forced H g c o co h1 h3 h4 h6 t0 lrest h7 h5 h2 cur) as [Ho [n [E1 [E2 [E3 _]]]]].
  split; [exact Ho|]. exists n. auto.
Qed.
Print Assumptions C10_single_converges.

(* a plain second checkout of the result has nothing to do, changes nothing, saves no record *)
Theorem C10_single_idempotent : forall H g c o co t0 lrest cur, Conv1 H g c o co t0 lrest ->
  let r := checkout1 H g c cur o in
  forall g2, g_relink g2 = false ->
    checkout1 H g2 c (kassoc root_key (r_ws r)) o = mk_result ONothing (r_ws r) c None.
Proof.
  intros H g c o co t0 lrest cur [h1 h2 [h3 h3'] h4 h5 h6 h7] r g2 Hr.
  destruct (single_forced H g c o co h1 h3 h4 h6 t0 lrest h7 h5 h2 cur) as [_ [n [E1 [E2 [E3 _]]]]].
  fold r in E1. rewrite E1, (single_second H c o co h1 h3 h4 h5 n g2 E2 E3 Hr). f_equal.
  destruct (checkout1_ws H g c cur o) as [x Ex]. fold r in Ex. rewrite Ex in E1 |- *.
  rewrite kassoc_put1 in E1. now subst x.
Qed.
Print Assumptions C10_single_idempotent.

(* the saved record is the path's own mtime (the inode half is judged by the oracle) *)
Theorem C10_single_link_record : forall H g c o co t0 lrest cur, Conv1 H g c o co t0 lrest ->
  let r := checkout1 H g c cur o in
  forall rec, r_links r = Some rec ->
  exists n, kassoc root_key (r_ws r) = Some n /\ rec = [(root_key, f_mtime n)].
Proof.
  intros H g c o co t0 lrest cur [h1 h2 [h3 h3'] h4 h5 h6 h7] r rec Hrec.
  destruct (single_forced H g c o co h1 h3 h4 h6 t0 lrest h7 h5 h2 cur) as [_ [n [E1 [_ [_ E4]]]]].
  exists n. split; [exact E1|]. now apply E4.
Qed.
Print Assumptions C10_single_link_record.

(* [Conv1] is satisfiable; a symlink prior with another content is replaced by a hard link, the
   record is saved, the second call has nothing to do *)
Theorem C10_single_instance :
  let H := fun b : bytes => 1 :: b in
  let g := mk_cfg true true None [hardlink_name] [LHard] true 9 in
  let c := [([1; 65], mk_cobj [65] 1 1 5); ([1; 66], mk_cobj [66] 2 1 6)] in
  let cur := Some (mk_fnode [66] true (Some [1; 66]) false 2 1 6) in
  Conv1 H g c [1; 65] (mk_cobj [65] 1 1 5) LHard [] /\
  let r := checkout1 H g c cur [1; 65] in
  r_out r = ODone false /\ r_links r = Some [(root_key, 5)] /\
  option_map (fun n => (f_bytes n, f_link n, f_ino n)) (kassoc root_key (r_ws r)) = Some ([65], false, 1).
Proof.
  split.
  - constructor; try reflexivity; try (split; reflexivity).
    + intros a b E. now injection E.
    + intros o' co'. simpl.
      destruct (list_N_eqb o' [1; 65]) eqn:E1; [apply list_N_eqb_spec in E1; subst; intros E; now injection E as <-|].
      destruct (list_N_eqb o' [1; 66]) eqn:E2; [apply list_N_eqb_spec in E2; subst; intros E; now injection E as <-|].
      intros E; discriminate.
  - vm_compute. repeat split; reflexivity.
Qed.
Print Assumptions C10_single_instance.

(* full statement of C10_converges (no restriction on the prior workspace): refuted.  Forced
   checkout, cached target, every key in the order, usable link type - and a file outside the
   target survives because the workspace holds a dangling symbolic link. *)
Theorem C10_converges_refuted :
  exists (H : bytes -> oid) g c w tgt order,
    g_force g = true /\ g_links g <> [] /\
    (forall k o, kassoc k tgt = Some o -> exists co, oassoc o c = Some co) /\
    (forall k, (is_some (kassoc k w) || is_some (kassoc k tgt))%bool = true -> In k order) /\
    ~ (forall k, option_map f_bytes (kassoc k (r_ws (checkout H g c w tgt order))) = expected c tgt k).
Proof.
  exists (fun b => 1 :: b), (mk_cfg true false None [hardlink_name] [LHard] false 9),
         [([1; 65], mk_cobj [65] 1 1 1)],
         [([[97]], mk_fnode [67] false None false 0 1 2); ([[98]], dangling_node [1; 66])],
         [([[122]], [1; 65])], [[[122]]; [[97]]; [[98]]].
  split; [reflexivity|]. split; [discriminate|]. split.
  - intros k o. simpl. destruct (key_eqb k [[122]]); [|discriminate].
    intros E. injection E as <-. eexists. reflexivity.
  - split.
    + intros k. simpl.
      destruct (key_eqb k [[97]]) eqn:E1; [apply ObjCheckoutProofs.key_eqb_spec in E1; subst; simpl; auto|].
      destruct (key_eqb k [[98]]) eqn:E2; [apply ObjCheckoutProofs.key_eqb_spec in E2; subst; simpl; auto|].
      destruct (key_eqb k [[122]]) eqn:E3; [apply ObjCheckoutProofs.key_eqb_spec in E3; subst; simpl; auto|].
      discriminate.
    + intros Hall. specialize (Hall [[97]]). vm_compute in Hall. discriminate.
Qed.
Print Assumptions C10_converges_refuted.

(* the hypotheses [Conv] are satisfiable by a non-trivial state (a file to delete, one to add, one
   to replace, one to keep), and the conclusions are then visible by computation *)
Theorem C10_conv_instance :
  let H := fun b : bytes => 1 :: b in
  let g := mk_cfg true true None [hardlink_name] [LHard] true 9 in
  let c := [([1; 65], mk_cobj [65] 1 1 1); ([1; 66], mk_cobj [66] 2 1 2)] in
  let w := [([[97]], mk_fnode [67] false None false 0 1 3); ([[98]], mk_fnode [65] false None false 0 1 4);
            ([[100]], mk_fnode [66] false None false 2 2 2)] in
  let tgt := [([[122]], [1; 65]); ([[98]], [1; 66]); ([[100]], [1; 66])] in
  let order := [[[122]]; [[97]]; [[98]]; [[100]]] in
  Conv H g c w tgt order LHard [] /\
  let r := checkout H g c w tgt order in
  r_out r = ODone false /\
  map (fun kn => (fst kn, f_bytes (snd kn))) (r_ws r) = [([[98]], [66]); ([[122]], [65]); ([[100]], [66])] /\
  r_links r = Some [([[122]], 1); ([[98]], 2); ([[100]], 2)] /\
  r_out (checkout H (mk_cfg false false None [hardlink_name] [LHard] true 9) c (r_ws r) tgt order) = ONothing.
Proof.
  split.
  - constructor; try reflexivity.
    + intros a b E. now injection E.
    + intros k o. simpl.
      repeat (destruct (key_eqb k _); [intros E; injection E as <-; repeat split; eexists; reflexivity|]). discriminate.
    + intros o co. simpl.
      destruct (list_N_eqb o [1; 65]) eqn:E1; [apply list_N_eqb_spec in E1; subst; intros E; now injection E as <-|].
      destruct (list_N_eqb o [1; 66]) eqn:E2; [apply list_N_eqb_spec in E2; subst; intros E; now injection E as <-|].
      intros E; discriminate.
    + repeat constructor; simpl; intuition discriminate.
    + intros k. simpl.
      destruct (key_eqb k [[97]]) eqn:E1; [apply ObjCheckoutProofs.key_eqb_spec in E1; subst; simpl; auto 10|].
      destruct (key_eqb k [[98]]) eqn:E2; [apply ObjCheckoutProofs.key_eqb_spec in E2; subst; simpl; auto 10|].
      destruct (key_eqb k [[100]]) eqn:E3; [apply ObjCheckoutProofs.key_eqb_spec in E3; subst; simpl; auto 10|].
      destruct (key_eqb k [[122]]) eqn:E4; [apply ObjCheckoutProofs.key_eqb_spec in E4; subst; simpl; auto 10|].
      simpl. discriminate.
  - vm_compute. repeat split; reflexivity.
Qed.
Print Assumptions C10_conv_instance.
