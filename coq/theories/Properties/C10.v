(* C10 - Object checkout converges, is idempotent, honours link types, spares the cache.
   Only statements; model in Model/ObjCheckout.v, proofs in Proofs/ObjCheckoutProofs2.v.

   Deviation from DESIGN (time): C10_converges, C10_idempotent and C10_link_record are NOT proved
   here; they are established by the oracle and the correspondence only (walk = target, second
   call returns None and changes nothing, saved record = recomputed (inode, token)).  What is
   proved, unbounded:
   - C10_cache_untouched: no step of the model writes the cache (that the implementation has no
     such step is what the correspondence's byte snapshot measures);
   - C10_relink_partial: the decision the relinking checkout rests on - the *generated*
     _needs_relink answers "no" exactly for files that already have the single configured link
     type (inode of the cache object for hard links, destination = cache path for symlinks).
     This is the obligation that finding 7.7 refuted before commit a8647e5.  The full statement
     (relink -> forall file, kind ws' file = configured type) additionally needs the per-path
     frame argument over run_files. *)
From Coq Require Import NArith List Bool.
From DvcData Require Import Base.Val Base.PyBase Gen.PyTypes Gen.Relink Model.ObjCheckout Proofs.ObjCheckoutProofs2.
Import ListNotations.
Open Scope N_scope.

Theorem C10_cache_untouched : forall H g c w tgt order, r_cache (checkout H g c w tgt order) = c.
Proof. exact checkout_cache_untouched. Qed.
Print Assumptions C10_cache_untouched.

Theorem C10_relink_partial : forall t path m cm o, o <> [] ->
  (needs_relink path (mk_cacheinfo [lkind_name t] (fun x => x)) m cm (Some o) = false <-> has_kind t m cm o).
Proof.
  intros t path m cm o Ho. split.
  - now apply needs_relink_sound.
  - now apply needs_relink_complete.
Qed.
Print Assumptions C10_relink_partial.
