(* C11 - A transfer's result tells the truth about what arrived.
   Only statements here; the model is Model/Transfer.v, proofs in
   Proofs/Transfer{Base,Status,Loop,Proofs}.v.  See Properties/C04.v for the reading guide.

   [wf11 i] is C11's quantifier: ARBITRARY request (files, directories, shallow or expanded),
   arbitrary contents of source and destination (the destination need not be closed), arbitrary
   failure and order oracles, corrupt sources under verify; it only asks for admissible order
   oracles, flat listings, content addressing, and a destination status that does not invent
   objects ([status_sound]: holds without index, C11_status_sound_noindex, and with a sound
   index over a closed destination, C11_status_sound_index).

   Recorded finding (known_findings.json,
   C11:transferred-but-absent:dir-with-file-missing-on-both-sides): a requested directory that
   lists a file missing on both sides is withheld but reported as transferred.  The faithful
   model therefore REFUTES the full statements of C11_transferred_present and
   C11_absent_reported (the `_refuted` theorems, witness [ex_known] evaluated by vm_compute -
   the same input reproduces on the implementation); the theorems are proved restricted to
   [no_dir_missing], the exact complement of the finding's signature. *)
From Coq Require Import NArith List Bool.
From DvcData Require Import Base.Val Model.Transfer Gen.TransferGen Proofs.TransferBase Proofs.TransferStatus Proofs.TransferLoop Proofs.TransferProofs Proofs.TransferGenTie.
Import ListNotations.
Open Scope N_scope.

Theorem C11_wf_meaning : forall i, wf11 i <->
  (  (forall l o, In o (t_bord i l) <-> In o l)
  /\ (forall l o, In o (t_dord i l) <-> In o l)
  /\ (forall b l f, t_parse i b = Some l -> In f l -> is_dir_oid f = false)
  /\ (agree (t_parse i) (status_cache i) (t_src i) /\ agree (t_parse i) (status_cache i) (t_dst i))
  /\ status_sound i).
Proof.
  intros i. split.
  - intros [A B C D E]. repeat split; auto; try apply A; try apply B; destruct D; auto.
  - intros [A [B [C [D E]]]]. constructor; auto.
Qed.
Print Assumptions C11_wf_meaning.

Theorem C11_status_sound_noindex : forall i, t_dix i = None -> status_sound i.
Proof. exact status_sound_noindex. Qed.
Print Assumptions C11_status_sound_noindex.

Theorem C11_status_sound_index : forall i,
  closed (t_parse i) (t_dst i) -> coherent i -> ix_sound i -> status_sound i.
Proof. exact status_sound_index. Qed.
Print Assumptions C11_status_sound_index.

(* transferred and failed partition status.new *)
Theorem C11_partition : forall i st tr fl,
  wf11 i -> o_status (transfer i) = Some st -> o_outcome (transfer i) = TOk tr fl ->
  (forall o, In o (c_new st) <-> In o tr \/ In o fl) /\ (forall o, In o tr -> ~ In o fl).
Proof. exact partition. Qed.
Print Assumptions C11_partition.

(* every object reported as transferred is in the destination with the source's bytes -
   for requests in which no directory of [new] lists a file missing on both sides *)
Theorem C11_transferred_present : forall i st tr fl o,
  wf11 i -> o_status (transfer i) = Some st -> o_outcome (transfer i) = TOk tr fl ->
  no_dir_missing i st -> In o tr ->
  has (w_dst (final_world i)) o = true /\ lookup o (w_dst (final_world i)) = lookup o (t_src i).
Proof. exact transferred_present. Qed.
Print Assumptions C11_transferred_present.

(* the full statement (no restriction, even for closed destinations and requests) is false *)
Theorem C11_transferred_present_refuted :
  ~ (forall i st tr fl o, wf i -> o_status (transfer i) = Some st -> o_outcome (transfer i) = TOk tr fl ->
       In o tr -> has (w_dst (final_world i)) o = true).
Proof. exact transferred_present_refuted. Qed.
Print Assumptions C11_transferred_present_refuted.

(* non-atomic uploads: an upload that fails after truncated bytes were written under the final
   name (event [Partial o b]) is reported failed and never as transferred; together with
   C11_transferred_present (bytes equal to the source's) a truncated object is never "transferred" *)
Theorem C11_partial_failed : forall i st tr fl o b,
  wf11 i -> o_status (transfer i) = Some st -> o_outcome (transfer i) = TOk tr fl ->
  no_dir_missing i st -> In (Partial o b) (o_events (transfer i)) -> In o fl /\ ~ In o tr.
Proof. exact partial_failed. Qed.
Print Assumptions C11_partial_failed.

(* every requested object absent afterwards is reported failed, or is missing on both sides *)
Theorem C11_absent_reported : forall i st tr fl o,
  wf11 i -> o_status (transfer i) = Some st -> o_outcome (transfer i) = TOk tr fl ->
  no_dir_missing i st -> In o (t_req i) -> has (w_dst (final_world i)) o = false ->
  In o fl \/ In o (c_missing st).
Proof. exact absent_reported. Qed.
Print Assumptions C11_absent_reported.

Theorem C11_absent_reported_refuted :
  ~ (forall i st tr fl o, wf i -> o_status (transfer i) = Some st -> o_outcome (transfer i) = TOk tr fl ->
       In o (t_req i) -> has (w_dst (final_world i)) o = false -> In o fl \/ In o (c_missing st)).
Proof. exact absent_reported_refuted. Qed.
Print Assumptions C11_absent_reported_refuted.

(* an object already in the destination: no upload or removal event names it, its bytes stay,
   and it is in neither result set *)
Theorem C11_no_resend : forall i o,
  wf11 i -> has (t_dst i) o = true ->
  (forall e, In e (o_events (transfer i)) -> ev_oid e <> Some o) /\
  lookup o (w_dst (final_world i)) = lookup o (t_dst i) /\
  (forall tr fl, o_outcome (transfer i) = TOk tr fl -> ~ In o tr /\ ~ In o fl).
Proof. exact no_resend. Qed.
Print Assumptions C11_no_resend.

(* the source store is never modified, wherever the run stops *)
Theorem C11_src_untouched : forall i n,
  w_src (killed_world i n) = t_src i /\ w_src (final_world i) = t_src i.
Proof. exact src_untouched. Qed.
Print Assumptions C11_src_untouched.

(* ---- the tie to the source text (Gen/TransferGen.v, regenerated on every run from
   hashfile/transfer.py and status.py by translator/transferunit.py) ---- *)
(* transfer(): status, then validate_status, then the early return, then _do_transfer(new, missing) *)
Theorem C11_source_phases : g_phases = [PStatus; PValidate; PEarlyReturn; PDoTransfer] /\
                            g_do_transfer_args = (SNew, SMissing).
Proof. exact gen_phases_ok. Qed.
Print Assumptions C11_source_phases.

Theorem C11_source_result : forall i st tr fl,
  o_status (transfer i) = Some st -> o_outcome (transfer i) = TOk tr fl -> c_new st <> [] ->
  (tr, fl) = g_result (c_new st) fl.
Proof. exact gen_result_ok. Qed.
Print Assumptions C11_source_result.

Theorem C11_source_compare_status : forall i st dix six dex dmiss dix',
  compare_status i = inr (st, dix, six) ->
  status_ix (t_dnoop i) (t_parse i) (t_dst i) (status_cache i) (t_dix i) (t_shallow i) (t_req i) = inr (dex, dmiss, dix') ->
  if g_ask_source false dmiss
  then exists sex smiss six',
         status_ix (t_snoop i) (t_parse i) (t_src i) (t_src i) (t_six i) (t_shallow i) (t_req i) = inr (sex, smiss, six') /\
         st = g_cmp sex smiss dex dmiss
  else st = g_cmp dex [] dex dmiss.
Proof. exact gen_cmp_ok. Qed.
Print Assumptions C11_source_compare_status.

Theorem C11_source_error_counts :
  (forall is_permission_error, g_error_counts is_permission_error false = true) /\
  g_error_counts true true = false /\ g_error_counts false true = true.
Proof. split; [exact gen_error_single_writer|exact gen_error_exemption]. Qed.
Print Assumptions C11_source_error_counts.
