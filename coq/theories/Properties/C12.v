(* C12 - Status is exact and the remote index never invents objects.
   Only statements here; proofs are in Proofs/StatusProofs.v (one call) and
   Proofs/StatusHistoryProofs.v (histories), the model in Model/Status.v.

   Vocabulary (all definitions are in the files above):
   - a store is the finite set of ids it holds; [load D = Some l]: the directory object D can be
     loaded (from cache_odb) and lists the ids l; the index is a finite map id |-> is_dir flag.
   - [Queried load sh q o]: o is a requested id or - in expanding mode (sh = false) - is listed by a
     requested directory object.
   - [wf_loader] / [wf_env]: directory objects are flat listings (they list no directory id) - what
     Tree objects are; [flags_ok ix]: the flag stored with an indexed id is "is a directory id"
     (ObjectDBIndex.update guarantees it; proved invariant along histories).
   - history machine: one remote with ONE shared index, ops [Push req shallow fails] (fails = the
     uploads that fail; covers Transfer and FailedTransfer), [Fetch], [ExtDelete], [Query];
     [s_ever] = union of the contents the remote had along the history (C12_ever_meaning).
   - [closed_in E X]: X holds, with a directory object, everything it lists; [closed_op]: a push
     lists directories with their files, or is asked to expand them.

   Deviations from DESIGN section 6, C12:
   - C12_compare: in transfer mode (check_deleted = false) compare_status does not consult the
     source when nothing is missing in the destination; then src_exists := dest_exists.  The
     theorem states the four Boolean combinations of the two answers *as compare_status takes them*
     (C12_compare) and, without indexes, of membership in the two stores (C12_compare_exact: new and
     missing always; ok and deleted when the source was consulted).
   - C12_index_sound is proved in the DESIGN's disjunctive form; for closed histories the first
     disjunct alone holds (C12_index_sound_ever), because "what the remote ever held" stays closed
     (C12_history_invariant: the C04-style closure is proved here for this model, not assumed).
     The 7.2 exclusion mentioned in the DESIGN is gone: the model has the repaired _do_transfer
     (a directory is withheld when ANY requested file it lists failed). *)
From stdpp Require Import gmap.
From Coq Require Import NArith.
From DvcData Require Import Base.Val Model.Status Gen.StatusPy Proofs.StatusProofs Proofs.StatusHistoryProofs Proofs.StatusTie.
Open Scope N_scope.

(* ---- status without an index is exact (shallow and expanded) *)
Theorem C12_exact : ∀ (st : gset oid) (load : loader) q sh e m ix',
  status st load None q sh = Ok (e, m, ix') →
  ix' = None ∧
  (∀ o, o ∈ e ↔ Queried load sh q o ∧ o ∈ st) ∧
  (∀ o, o ∈ m ↔ Queried load sh q o ∧ o ∉ st).
Proof. exact status_exact. Qed.
Print Assumptions C12_exact.

Theorem C12_exact_sets : ∀ (st : gset oid) (load : loader) q sh e m ix',
  status st load None q sh = Ok (e, m, ix') →
  ∃ ids, collect load sh q = Some ids ∧ e = ids ∩ st ∧ m = ids ∖ st ∧ e ∪ m = ids ∧ e ∩ m = ∅.
Proof. exact status_exact_sets. Qed.
Print Assumptions C12_exact_sets.

(* the only failure: an expanding query that cannot load a requested directory object *)
Theorem C12_exact_error : ∀ (st : gset oid) (load : loader) q sh k,
  status st load None q sh = Err k →
  k = 2 ∧ sh = false ∧ ∃ D, D ∈ q ∧ is_dir_oid D = true ∧ load D = None.
Proof. exact status_plain_error. Qed.
Print Assumptions C12_exact_error.

(* ---- compare_status: the four Boolean combinations of the two answers (indexes or not) *)
Theorem C12_compare : ∀ (src dst : gset oid) load_s load_d six dix q sh cd c six' dix',
  compare_status src dst load_s load_d six dix q sh cd = Ok (c, six', dix') →
  ∃ dex dmiss sex smiss,
    status dst load_d dix q sh = Ok (dex, dmiss, dix') ∧
    (if negb (bool_decide (dmiss = ∅)) || cd
     then status src load_s six q sh = Ok (sex, smiss, six')
     else sex = dex ∧ smiss = ∅ ∧ six' = six) ∧
    ∀ o, (o ∈ c_ok c ↔ o ∈ sex ∧ o ∈ dex) ∧
         (o ∈ c_new c ↔ o ∈ sex ∧ o ∉ dex) ∧
         (o ∈ c_deleted c ↔ o ∉ sex ∧ o ∈ dex) ∧
         (o ∈ c_missing c ↔ o ∈ smiss ∧ o ∈ dmiss).
Proof. exact compare_combines. Qed.
Print Assumptions C12_compare.

Theorem C12_compare_exact : ∀ (src dst : gset oid) load q sh cd c six' dix',
  compare_status src dst load load None None q sh cd = Ok (c, six', dix') →
  let Q := Queried load sh q in
  (∀ o, o ∈ c_new c ↔ Q o ∧ o ∈ src ∧ o ∉ dst) ∧
  (∀ o, o ∈ c_missing c ↔ Q o ∧ o ∉ src ∧ o ∉ dst) ∧
  (cd = true ∨ (∃ x, Q x ∧ x ∉ dst) →
     (∀ o, o ∈ c_ok c ↔ Q o ∧ o ∈ src ∧ o ∈ dst) ∧
     (∀ o, o ∈ c_deleted c ↔ Q o ∧ o ∉ src ∧ o ∈ dst)) ∧
  (cd = false ∧ (∀ x, Q x → x ∈ dst) → (∀ o, o ∈ c_ok c ↔ Q o) ∧ (∀ o, o ∉ c_deleted c)) ∧
  (∀ o, Q o ↔ o ∈ c_ok c ∨ o ∈ c_new c ∨ o ∈ c_deleted c ∨ o ∈ c_missing c) ∧
  c_ok c ## c_new c ∧ c_ok c ## c_deleted c ∧ c_ok c ## c_missing c ∧
  c_new c ## c_deleted c ∧ c_new c ## c_missing c ∧ c_deleted c ## c_missing c.
Proof. exact compare_exact. Qed.
Print Assumptions C12_compare_exact.

(* ---- with an index: a directory object is reported existing only if it is in the store at
   query time; after a query that names a directory no indexed directory is stale *)
Theorem C12_dir_fresh : ∀ (st : gset oid) load ix q sh e m ix',
  status_ix st load ix q sh = Ok (e, m, ix') → wf_loader load → flags_ok ix →
  (∀ D, D ∈ e → is_dir_oid D = true → D ∈ st) ∧
  (req_dirs q ≠ [] → ∀ D, D ∈ ix_dirs ix' → D ∈ st) ∧
  flags_ok ix'.
Proof. exact status_dir_fresh. Qed.
Print Assumptions C12_dir_fresh.

(* ---- the real loops iterate Python sets/dicts in an order the model does not know: for flat
   listings status() through an index (result AND index update) does not depend on it *)
Theorem C12_order_irrelevant : ∀ (st : gset oid) load ix q1 q2 sh,
  wf_loader load → q1 ≡ₚ q2 → status_ix st load ix q1 sh = status_ix st load ix q2 sh.
Proof. exact status_ix_perm. Qed.
Print Assumptions C12_order_irrelevant.

(* ---- histories.  Inv init, Inv s -> Inv (step s op), lifted by fold_left *)
Theorem C12_inv_init : ∀ E remote, closed_in E remote → Inv E (init_state remote).
Proof. exact Inv_init. Qed.
Print Assumptions C12_inv_init.

Theorem C12_inv_step : ∀ E s o, wf_env E → closed_op E o → Inv E s → Inv E (step E s o).1.
Proof. exact Inv_step. Qed.
Print Assumptions C12_inv_step.

Theorem C12_history_invariant : ∀ E remote ops,
  wf_env E → closed_in E remote → Forall (closed_op E) ops →
  Inv E (foldl (λ s o, (step E s o).1) (init_state remote) ops).
Proof. exact index_sound. Qed.
Print Assumptions C12_history_invariant.

Theorem C12_index_sound : ∀ E remote ops,
  wf_env E → closed_in E remote → Forall (closed_op E) ops →
  ∀ o, o ∈ dom (s_idx (run E (init_state remote) ops)) →
    o ∈ s_ever (run E (init_state remote) ops) ∨
    ∃ D l, D ∈ s_remote (run E (init_state remote) ops) ∧ e_trees E !! D = Some l ∧ o ∈ l.
Proof. exact index_sound_listed. Qed.
Print Assumptions C12_index_sound.

Theorem C12_index_sound_ever : ∀ E remote ops,
  wf_env E → closed_in E remote → Forall (closed_op E) ops →
  ∀ o, o ∈ dom (s_idx (run E (init_state remote) ops)) → o ∈ s_ever (run E (init_state remote) ops).
Proof. intros E remote ops Hw Hc Hops. exact (inv_index _ _ (index_sound E remote ops Hw Hc Hops)). Qed.
Print Assumptions C12_index_sound_ever.

(* [s_ever] grows by exactly what is in the remote after each step ... *)
Theorem C12_ever_meaning : ∀ E s o,
  s_remote s ⊆ s_ever s → s_ever (step E s o).1 = s_ever s ∪ s_remote (step E s o).1.
Proof. exact step_ever. Qed.
Print Assumptions C12_ever_meaning.

(* ... and nothing in it is invented: it was there initially or came from the pushing store *)
Theorem C12_ever_from_source : ∀ E ops s x,
  x ∈ s_ever (run E s ops) → x ∈ s_ever s ∨ x ∈ e_src E.
Proof. exact run_ever_src. Qed.
Print Assumptions C12_ever_from_source.

(* along every closed history a query through the shared index reports no stale directory *)
Theorem C12_history_dir_fresh : ∀ E remote ops q sh s' ex mi,
  wf_env E → closed_in E remote → Forall (closed_op E) ops →
  step E (run E (init_state remote) ops) (Query q sh) = (s', OStatus ex mi) →
  ∀ D, D ∈ ex → is_dir_oid D = true → D ∈ s_remote (run E (init_state remote) ops).
Proof. exact history_dir_fresh. Qed.
Print Assumptions C12_history_dir_fresh.

(* ---- the tie to the source.  Gen/StatusPy.v is regenerated on every run from hashfile/status.py
   (translator/statusunit.py: the set algebra of _indexed_dir_hashes / status / compare_status is
   translated statement by statement, loops and call sites are shape-checked with their decisions
   flowing into the text).  The translated fragments are EQUAL to the model's functions: every
   theorem above is a theorem about the statements that are in the source now; a semantic edit
   of those statements that still translates breaks one of these equalities. *)
Theorem C12_tie_validate : ∀ st ix dirs,
  py_validate st ix (list_to_set dirs) = ((revalidate st ix).1, dir_exists st (revalidate st ix).2 dirs).
Proof. exact py_validate_tie. Qed.
Print Assumptions C12_tie_validate.

Theorem C12_tie_indexed_dir_hashes : ∀ st load ix dirs,
  py_indexed_dir_hashes st load ix dirs = indexed_dir_hashes st load ix dirs.
Proof. exact py_indexed_dir_hashes_tie. Qed.
Print Assumptions C12_tie_indexed_dir_hashes.

Theorem C12_tie_status : ∀ st load ix q sh,
  (py_registers_shallow = true ∧ py_registers_expanded = true) ∧
  status_plain st load q sh =
    match collect load sh q with
    | None => Err 2
    | Some hashes => Ok (py_status_tail_plain st hashes (negb (bool_decide (req_dirs q = []))))
    end ∧
  status_ix st load ix q sh =
    match collect load sh q with
    | None => Err 2
    | Some hashes =>
        let '(e, m, ix') :=
          py_status_tail_ix st ix hashes (negb (bool_decide (req_dirs q = [])))
                            (λ i, py_indexed_dir_hashes st load i (req_dirs q)) in
        Ok (e, m, ix')
    end.
Proof.
  intros. split; [exact py_registers_tie|]. split; [apply py_status_plain_tie|apply py_status_ix_tie].
Qed.
Print Assumptions C12_tie_status.

Theorem C12_tie_compare : ∀ src dst load_s load_d six dix q sh cd,
  py_compare_status src dst load_s load_d six dix q sh cd
  = compare_status src dst load_s load_d six dix q sh cd.
Proof. exact py_compare_tie. Qed.
Print Assumptions C12_tie_compare.

(* C12_exact on the translated statements themselves *)
Theorem C12_exact_source : ∀ st ids hd, py_status_tail_plain st ids hd = (ids ∩ st, ids ∖ st).
Proof. exact py_status_plain_exact. Qed.
Print Assumptions C12_exact_source.
