(* C20 - Index and entry serialisation round-trips.
   Only statements here; proofs in Proofs/Serialize{,Index,Listing}Proofs.v, hand-written model in
   Model/Serialize.v.  All theorems are unbounded (any metadata, hash, entry, key, index, history, listing).

   What the theorems are ABOUT (regenerated from /repo on every run, so an edit of the source changes these
   very definitions and the proofs are re-checked against them):
     Meta_to_dict, HashInfo_to_dict, DataIndexEntry_to_dict, the records          Gen/PyTypes.v  (unit "types")
     Meta_from_dict, HashInfo_from_dict, DataIndexEntry_from_dict                 Gen/SerDict.v  (unit "serdict")
   hand-modelled and tied by the correspondence run: "/".join / split, write_json/read_json/write_db/read_db,
   DataIndexTrie + commit/close/reopen, Tree.as_list(with_meta=True) / Tree.from_list.

   Reading of the property, and the two documented observations (not alarms):
   * "lossless on the fields that are serialised": [meta_ser m] / [hi_ser h] are the explicit normal forms -
     isdir, size, nfiles, isexec kept as they are (size 0 and nfiles 0 included); version_id, etag, checksum,
     md5, remote kept when non-empty, else None; inode, mtime, is_link, destination, nlink, obj_name are never
     written and come back as the attrs defaults.  from_dict (to_dict x) is exactly that normal form and the
     dictionary determines it (C20_meta, C20_meta_lossless, C20_hash, C20_hash_lossless).
   * entries are compared through [proj] = (serialised meta dict, serialised hash dict, loaded).  An absent meta
     and an all-default meta both project to {} - DataIndexEntry.from_dict maps "meta": {} to None.  The key is
     not part of the dictionary: it comes back as None from from_dict and is re-attached by the index readers.
   * listing with metadata: the flat listing stores the hash in the "md5" slot, so the Meta that comes back has
     md5 = the entry's hash value (C20_listing_meta says so explicitly; C20_listing_md5_kept: unchanged when the
     slot already held the hash, which is the case for every tree that from_list itself builds).  Stated for
     the md5 family (md5, md5-dos2unix): for a hash name without a Meta attribute (sha256) from_list raises
     (Example listing_sha256_fails) - outside the property's "given its hash name" premise.
   * joined forms need non-empty keys with "/"-free parts (the theorem even allows empty parts); the SQLite form
     has no condition on keys and covers the root key (). *)
From Coq Require Import NArith List Bool Permutation.
From DvcData Require Import Base.Val Base.PyBase Gen.PyTypes Gen.SerDict Model.Serialize.
From DvcData Require Import Proofs.SerializeProofs Proofs.SerializeIndexProofs Proofs.SerializeListingProofs.
Import ListNotations.
Open Scope N_scope.

(* ---- metadata ---- *)

Theorem C20_meta : forall m : meta,
  exists m', Meta_from_dict (Meta_to_dict m) = Ok m' /\ Meta_to_dict m' = Meta_to_dict m /\ m' = meta_ser m.
Proof. exact meta_roundtrip. Qed.
Print Assumptions C20_meta.

Theorem C20_meta_lossless : forall a b : meta, Meta_to_dict a = Meta_to_dict b <-> meta_ser a = meta_ser b.
Proof. exact meta_lossless. Qed.
Print Assumptions C20_meta_lossless.

(* field by field: what [meta_ser] keeps *)
Theorem C20_meta_fields : forall m : meta,
  let m' := meta_ser m in
  m_isdir m' = m_isdir m /\ m_size m' = m_size m /\ m_nfiles m' = m_nfiles m /\ m_isexec m' = m_isexec m /\
  (forall s, s <> [] -> (m_version_id m = Some s <-> m_version_id m' = Some s)) /\
  (forall s, s <> [] -> (m_etag m = Some s <-> m_etag m' = Some s)) /\
  (forall s, s <> [] -> (m_checksum m = Some s <-> m_checksum m' = Some s)) /\
  (forall s, s <> [] -> (m_md5 m = Some s <-> m_md5 m' = Some s)) /\
  (forall s, s <> [] -> (m_remote m = Some s <-> m_remote m' = Some s)).
Proof. exact meta_ser_fields. Qed.
Print Assumptions C20_meta_fields.

(* ---- hash information ---- *)

Theorem C20_hash : forall h : hashinfo,
  exists h', HashInfo_from_dict (HashInfo_to_dict h) = Ok h' /\ HashInfo_to_dict h' = HashInfo_to_dict h /\
             h' = hi_ser h.
Proof. exact hash_roundtrip. Qed.
Print Assumptions C20_hash.

Theorem C20_hash_exact : forall (h : hashinfo) n v,
  hi_name h = Some n -> hi_value h = Some v -> n <> [] -> v <> [] ->
  HashInfo_from_dict (HashInfo_to_dict h) = Ok (mk_hashinfo (Some n) (Some v) None).
Proof. exact hash_roundtrip_exact. Qed.
Print Assumptions C20_hash_exact.

Theorem C20_hash_lossless : forall a b : hashinfo, HashInfo_to_dict a = HashInfo_to_dict b <-> hi_ser a = hi_ser b.
Proof. exact hash_lossless. Qed.
Print Assumptions C20_hash_lossless.

(* ---- entries ---- *)

Theorem C20_entry : forall e : ientry,
  exists e', DataIndexEntry_from_dict (DataIndexEntry_to_dict e) = Ok e' /\ proj e' = proj e /\ e_key e' = None.
Proof. exact entry_roundtrip. Qed.
Print Assumptions C20_entry.

(* ---- keys <-> "/"-joined text ---- *)

(* [key_wf]: non-empty key, every part non-empty and "/"-free (the property's quantifier) *)
Theorem C20_key : forall k : key, key_wf k = true -> split (join k) = k.
Proof. exact split_join_wf. Qed.
Print Assumptions C20_key.

(* what the round trip really needs: a non-empty key with "/"-free parts (empty parts are harmless) *)
Theorem C20_key_joinable : forall k : key, key_joinable k = true -> split (join k) = k.
Proof. exact split_join. Qed.
Print Assumptions C20_key_joinable.

Theorem C20_key_inj : forall a b : key,
  key_joinable a = true -> key_joinable b = true -> join a = join b -> a = b.
Proof. exact join_inj. Qed.
Print Assumptions C20_key_inj.

(* ---- whole indexes ----
   An index is its list of (key, entry) items in iteration order, keys pairwise distinct.  "Keys and projections
   preserved": the keys read back are the same list, and item by item the entry read back sits under the same
   key, has the same projection and carries that key. *)

Theorem C20_index_json : forall idx : index,
  NoDup (map fst idx) -> Forall (fun ke => key_wf (fst ke) = true) idx ->
  exists idx', read_json (write_json idx) = Ok idx' /\
    map fst idx' = map fst idx /\
    Forall2 (fun ke ke' => fst ke' = fst ke /\ proj (snd ke') = proj (snd ke) /\ e_key (snd ke') = Some (fst ke))
            idx idx'.
Proof.
  intros idx Hn Hw. apply joined_roundtrip_same; [exact Hn | now apply key_wf_keys_joinable].
Qed.
Print Assumptions C20_index_json.

Theorem C20_index_db : forall idx : index,
  NoDup (map fst idx) -> Forall (fun ke => key_wf (fst ke) = true) idx ->
  exists idx', read_db (write_db idx) = Ok idx' /\
    map fst idx' = map fst idx /\
    Forall2 (fun ke ke' => fst ke' = fst ke /\ proj (snd ke') = proj (snd ke) /\ e_key (snd ke') = Some (fst ke))
            idx idx'.
Proof.
  intros idx Hn Hw. apply joined_roundtrip_same; [exact Hn | now apply key_wf_keys_joinable].
Qed.
Print Assumptions C20_index_db.

(* exact form of both: the container is one item per entry under the joined key, and reading it back gives
   every entry's dictionary round trip ([entry_rt], see C20_entry) with its key re-attached *)
Theorem C20_index_joined_exact : forall idx : index,
  NoDup (map fst idx) -> Forall (fun ke => key_joinable (fst ke) = true) idx ->
  write_joined idx = map (fun ke => (join (fst ke), PVDict (DataIndexEntry_to_dict (snd ke)))) idx /\
  read_joined (write_joined idx) = Ok (map (fun ke => (fst ke, with_key (entry_rt (snd ke)) (fst ke))) idx).
Proof.
  intros idx Hn Hj. split; [now apply write_joined_items | now apply joined_roundtrip].
Qed.
Print Assumptions C20_index_joined_exact.

(* SQLite-backed index: add every entry, commit, close, reopen, list.  No condition on key parts; () included. *)
Theorem C20_index_sqlite : forall idx : index,
  NoDup (map fst idx) ->
  exists idx', read_sqlite (write_sqlite idx) = Ok idx' /\
    map fst idx' = map fst idx /\
    Forall2 (fun ke ke' => fst ke' = fst ke /\ proj (snd ke') = proj (snd ke) /\ e_key (snd ke') = Some (fst ke))
            idx idx'.
Proof. exact sqlite_roundtrip_same. Qed.
Print Assumptions C20_index_sqlite.

(* any history of writes (overwrites included), removals, commits and clean close/reopen cycles ([sq_unspec] = false: no
   close with uncommitted rows), then commit + close + reopen: exactly the last-written entry of every key,
   through its dictionary round trip - the identity cache never leaks a stale object across a reopen *)
Theorem C20_index_sqlite_history : forall ops : list sq_op,
  sq_unspec (sq_run ops sq_empty) = false ->
  sq_items (sq_step (sq_step (sq_run ops sq_empty) SqCommit) SqReopen)
  = Ok (map (fun ke => (fst ke, with_key (entry_rt (snd ke)) (fst ke))) (sq_sets [] ops)).
Proof. exact sqlite_roundtrip_ops. Qed.
Print Assumptions C20_index_sqlite_history.

(* ... where [sq_sets [] ops] is decided key by key by the LAST write or removal of that key (removal =
   del index[k] / pop / delete_node of a key without descendants): present with the last written entry, or absent *)
Theorem C20_index_sqlite_last_op : forall (ops : list sq_op) (k : key),
  aget key_eqb k (sq_sets [] ops) = sq_last k ops None /\
  (In k (map fst (sq_sets [] ops)) <-> sq_last k ops None <> None).
Proof.
  intros ops k. split; [apply (sq_sets_last ops [] k); constructor | apply sq_sets_keys].
Qed.
Print Assumptions C20_index_sqlite_last_op.

(* ---- listing with metadata ----
   [tree_wf hn t]: keys pairwise distinct and, for every entry, key joinable, metadata present, hash named hn
   with a non-empty value.  [titem_same hn a b]: same key, hash (hn, value) back, and the metadata back is
   serialisation-equal to the original with its md5 slot set to the hash value. *)
Theorem C20_listing_meta : forall (hn : text) (t : tree),
  hn = k_md5 \/ hn = k_md5_dos2unix ->
  NoDup (map fst t) -> forallb (titem_wf hn) t = true ->
  exists t' t0, listing_roundtrip (Some hn) t = Ok t' /\ Permutation t0 t /\
    Forall2 (fun a b =>
      fst b = fst a /\
      exists m h m' v,
        snd a = (Some m, Some h) /\ hi_name h = Some hn /\ hi_value h = Some v /\
        snd b = (Some m', Some (mk_hashinfo (Some hn) (Some v) None)) /\
        meta_ser m' = md5_set (meta_ser m) (Some v) /\
        Meta_to_dict m' = Meta_to_dict (md5_set m (Some v))) t0 t'.
Proof.
  intros hn t Hhn Hn Hw. apply listing_roundtrip_same; [exact Hhn | split; assumption].
Qed.
Print Assumptions C20_listing_meta.

Theorem C20_listing_md5_kept : forall hn (a b : titem) m h v,
  titem_same hn a b -> snd a = (Some m, Some h) -> hi_value h = Some v -> m_md5 m = Some v ->
  exists m', fst (snd b) = Some m' /\ Meta_to_dict m' = Meta_to_dict m.
Proof. exact titem_same_md5_kept. Qed.
Print Assumptions C20_listing_md5_kept.
