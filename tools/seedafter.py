#!/venv/bin/python
"""seedafter.py <prop> <mutant-name> [...]  - re-run tools/seedtest.py on seeded/<prop>/<name> and store the
result as outcome_after_strengthening.json (only when the first outcome.json was not an oracle catch)."""
import json
import os
import subprocess
import sys

V = os.path.dirname(os.path.dirname(os.path.abspath(__file__)))
prop = sys.argv[1]
for name in sys.argv[2:]:
    d = os.path.join(V, "seeded", prop, name)
    p = subprocess.run(["/venv/bin/python", os.path.join(V, "tools", "seedtest.py"), prop, d],
                       capture_output=True, text=True, timeout=3600, check=False)
    try:
        o = json.loads(p.stdout[p.stdout.index("{"):])
    except Exception:  # noqa: BLE001
        print(prop, name, "UNPARSABLE", p.stdout[-300:], p.stderr[-300:])
        continue
    o["mutant"] = f"seeded/{prop}/{name}"
    with open(os.path.join(d, "outcome_after_strengthening.json"), "w") as f:
        json.dump(o, f, indent=1)
    c = o.get("checks", {}).get(prop, {})
    print(prop, name, "caught", c.get("caught"), c.get("replay_kind"), c.get("replay_signature"), flush=True)
