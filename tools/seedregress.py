#!/venv/bin/python
"""Re-runs every seeded change under /verif/seeded against its designated check (tools/seedtest.py)
and writes seeded/REGRESSION.json: {seed: {caught, kind, signature}}.  ~25 min with 5 workers."""
import glob, json, os, subprocess, sys
from concurrent.futures import ThreadPoolExecutor
V = os.path.dirname(os.path.dirname(os.path.abspath(__file__)))
seeds = sorted(glob.glob(os.path.join(V, "seeded", "C*", "*m[0-9]")))
def run(sd):
    pid = sd.split("/")[-2]
    p = subprocess.run(["/venv/bin/python", os.path.join(V, "tools", "seedtest.py"), pid, sd],
                       capture_output=True, text=True, timeout=3600)
    try:
        d = json.loads(p.stdout[p.stdout.index("{"):])
        c = d["checks"][pid]
        return sd, {"caught": c["caught"], "kind": c.get("replay_kind"), "signature": c.get("replay_signature"),
                    "demo_clean_rc": d.get("demo_clean_rc"), "demo_mutant_rc": d.get("demo_mutant_rc"),
                    "patch_applies": d.get("patch_applies")}
    except Exception as exc:  # noqa: BLE001
        return sd, {"caught": False, "error": str(exc), "out": p.stdout[-300:]}
with ThreadPoolExecutor(max_workers=int(sys.argv[1]) if len(sys.argv) > 1 else 5) as ex:
    res = dict(ex.map(run, seeds))
out = {os.path.relpath(k, os.path.join(V, "seeded")): v for k, v in res.items()}
json.dump(out, open(os.path.join(V, "seeded", "REGRESSION.json"), "w"), indent=1, sort_keys=True)
miss = [k for k, v in out.items() if not v["caught"]]
print(len(out), "seeds;", len(out) - len(miss), "caught; not caught:", miss)
