#!/venv/bin/python
"""Round-7 seeder prompts from the round-6 ones (tools/mkseedprompts6.py must have written /tmp/seedprompts6):
new paths, the two round-6 changes of each property added to the list of changes to avoid, more mechanisms
excluded as over-used.  Seeders see ONLY these files."""
import json
import os
import re

V = os.path.dirname(os.path.dirname(os.path.abspath(__file__)))
os.makedirs("/tmp/seedprompts7", exist_ok=True)
for i in range(1, 21):
    p = f"C{i:02d}"
    s = open(f"/tmp/seedprompts6/{p}.txt").read()
    s = s.replace("seed6-", "seed7-").replace("seed-out6", "seed-out7")
    s = s.replace("(This is a SIXTH round. Ten changes were already produced",
                  "(This is a SEVENTH round. Twelve changes were already produced")
    extra = []
    for m in ("r6m1", "r6m2"):
        meta = json.load(open(os.path.join(V, "seeded", p, m, "meta.json")))
        what = re.sub(r"\s+", " ", str(meta.get("what_it_breaks", "")))[:170]
        extra.append(f"- files {meta.get('files_changed')}: {what}")
    marker = "\nAlso excluded as over-used:"
    assert marker in s, p
    s = s.replace(marker, "\n" + "\n".join(extra) + marker, 1)
    s = s.replace("Also excluded as over-used: ",
                  "Also excluded as over-used: zip() of thread-pool results against paths in listing order; "
                  "dropping `continue` after ObjectFormatError in oids_exist; `kwargs.get('verify', self.verify)`; "
                  "protect before check in HashFileDB.add; reusing one SQL statement across chunks; "
                  "`is not None` instead of truthiness on HashInfo; ", 1)
    open(f"/tmp/seedprompts7/{p}.txt", "w").write(s)
print("ok")
