#!/venv/bin/python
"""Round-8 seeder prompts from the round-7 ones (/tmp/seedprompts7 must exist): new paths, the two round-7
changes of each property added to the list of changes to avoid, a time budget.  Seeders see ONLY these files."""
import json
import os
import re

V = os.path.dirname(os.path.dirname(os.path.abspath(__file__)))
os.makedirs("/tmp/seedprompts8", exist_ok=True)
for i in range(1, 21):
    p = f"C{i:02d}"
    s = open(f"/tmp/seedprompts7/{p}.txt").read()
    s = s.replace("seed7-", "seed8-").replace("seed-out7", "seed-out8")
    s = s.replace("(This is a SEVENTH round. Twelve changes were already produced",
                  "(This is an EIGHTH round. Fourteen changes were already produced")
    extra = []
    for m in ("r7m1", "r7m2"):
        meta = json.load(open(os.path.join(V, "seeded", p, m, "meta.json")))
        what = re.sub(r"\s+", " ", str(meta.get("what_it_breaks", "")))[:170]
        extra.append(f"- files {meta.get('files_changed')}: {what}")
    marker = "\nAlso excluded as over-used:"
    assert marker in s, p
    s = s.replace(marker, "\n" + "\n".join(extra) + marker, 1)
    s = s.replace("YOUR TASK\n", "YOUR TASK\nTIME BUDGET: about 25 minutes in all. Finish mutant 1 completely (all three "
                  "verifications, all three deliverable files written) BEFORE starting mutant 2; if mutant 2 is not "
                  "finished in time deliver only mutant 1.\n", 1)
    open(f"/tmp/seedprompts8/{p}.txt", "w").write(s)
print("ok")
