#!/venv/bin/python
"""Regenerates /verif/MANIFEST.json from tools/checks.json (one entry per claimed property)."""
import json
import os

V = os.path.dirname(os.path.dirname(os.path.abspath(__file__)))
checks = json.load(open(os.path.join(V, "tools", "checks.json")))
props = [json.loads(l) for l in open(os.path.join(V, "properties.jsonl"))]
ids = [p["id"] for p in props]
man = {
    "version": 1,
    "setup_cmd": "make -C /verif setup",
    "hooks": {
        "guard": "DVC_DATA_VERIF",
        "enable": "no hooks are compiled into /repo: audit hooks, fault-injecting wrappers and monkey-patches live in the harness process (the guard name is reserved)",
        "baseline_off_cmd": "cd /repo && /venv/bin/python -m pytest -ra -q -p no:cacheprovider --timeout=900 --continue-on-collection-errors",
        "source_commits": [],
        "add_only": True,
    },
    "engines": [
        {
            "name": "coq-proof+correspondence",
            "path": "harness/check.py",
            "serves_properties": [c for c in ids if c in checks["claimed"]],
            "kind_free_text": "Coq 8.16 theorems over executable Gallina models (coq/theories), models tied to /repo on every run by a fail-closed Python-ast translator (translator/py2v.py) and by differential correspondence (model evaluated by vm_compute inside coqc against the real code on generated cases, recorded traces, fault and crash sweeps)",
        }
    ],
    "checks": [],
    "notes": checks.get("notes", ""),
    "not_applicable": [],
}
for pid in ids:
    c = checks["claimed"].get(pid)
    if not c:
        man["not_applicable"].append({"property_id": pid, "reason": checks["unclaimed"].get(pid, "not claimed yet: model and check under construction (the technique applies, see DESIGN.md section 6)")})
        continue
    man["checks"].append({
        "property_id": pid,
        "quick_cmd": f"/venv/bin/python harness/check.py {pid} --tier quick",
        "thorough_cmd": f"/venv/bin/python harness/check.py {pid} --tier thorough",
        "evidence_file": f"/verif/evidence/{pid}.json",
        "replay_cmd_template": f"/venv/bin/python harness/check.py {pid} --replay {{path}}",
        "engine": "coq-proof+correspondence",
        "level_claimed": {"category": "proof", "text": c["text"], "design_ref": f"DESIGN.md section 6, {pid}"},
        "level_note": c["note"],
        "technique": c["technique"],
    })
json.dump(man, open(os.path.join(V, "MANIFEST.json"), "w"), indent=1)
print("claimed:", [c["property_id"] for c in man["checks"]])
