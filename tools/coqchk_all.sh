#!/bin/sh
# independent re-check of every compiled property file (and everything it depends on) with coqchk;
# prints, per property, the axioms the checked context relies on.  Slow (minutes, GBs): on demand.
cd "$(dirname "$0")/../coq" || exit 2
ls theories/Properties/C*.vo | xargs -n1 basename | sed 's/\.vo$//' | xargs -P 4 -I{} sh -c \
  'timeout 3000 coqchk -silent -o -Q theories DvcData DvcData.Properties.{} > /tmp/coqchk_{}.log 2>&1; echo "== coqchk DvcData.Properties.{} rc=$?"; sed -n "/CONTEXT SUMMARY/,\$p" /tmp/coqchk_{}.log | grep -v "^ *$" | head -40; rm -f /tmp/coqchk_{}.log'
