#!/bin/sh
# independent re-check of every compiled property file (and everything it depends on) with coqchk;
# prints the axioms each relies on.  Slow (minutes, GBs): run on demand / in the thorough pass.
cd "$(dirname "$0")/../coq" || exit 2
rc=0
for f in theories/Properties/C*.vo; do
  m=$(basename "$f" .vo)
  echo "== coqchk DvcData.Properties.$m"
  timeout 3000 coqchk -silent -o -Q theories DvcData "DvcData.Properties.$m" 2>&1 | tail -25 || rc=1
done
exit $rc
