#!/venv/bin/python
"""Regenerates DESIGN.md section 12.3 (between the BEGIN/END markers) from tools/checks.json,
evidence/*.json (theorem names, axioms) and seeded/*/m*/{meta,outcome,outcome_other_checks}.json."""
import glob
import json
import os
import re

V = os.path.dirname(os.path.dirname(os.path.abspath(__file__)))
BEGIN = "<!-- BEGIN GENERATED 12.3 -->"
END = "<!-- END GENERATED 12.3 -->"


def load(p):
    try:
        with open(p) as f:
            return json.load(f)
    except Exception:  # noqa: BLE001
        return None


def main():
    checks = load(os.path.join(V, "tools", "checks.json"))["claimed"]
    known = load(os.path.join(V, "known_findings.json"))["findings"]
    regression = load(os.path.join(V, "seeded", "REGRESSION.json")) or {}
    out = [BEGIN, ""]
    for pid in sorted(checks):
        c = checks[pid]
        ev = load(os.path.join(V, "evidence", pid + ".json")) or {}
        cov = ev.get("coverage", {})
        thms = cov.get("theorems", [])
        axs = sorted({a for v in cov.get("axioms", {}).values() for a in v})
        out.append(f"#### {pid}")
        out.append("")
        out.append(f"* **Decided by.** {c['technique']}.")
        out.append(f"* **What the check establishes.** {c['text']}.")
        out.append(f"* **Trusted / assumed.** {c['note']}.")
        if thms:
            out.append(f"* **Theorems in `Properties/{pid}.v`** ({len(thms)}; `Print Assumptions`: "
                       + ("closed under the global context" if not axs else "only " + ", ".join(axs))
                       + "): " + ", ".join(f"`{t}`" for t in thms) + ".")
        ks = [k for k in known if k["property"] == pid]
        for k in ks:
            if k["status"] == "known":
                out.append(f"* **Known finding** `{k['signature']}`: {k['what']}.")
            else:
                out.append(f"* **Repaired defect** `{k['signature']}` ({k['commit']}): {k['what']}.")
        seeds = sorted(glob.glob(os.path.join(V, "seeded", pid, "*m[0-9]")))
        if seeds:
            out.append("* **Seeded changes** (written by independent agents from the property text only):")
            out.append("")
            out.append("  | change | what it breaks / needs | this check | other checks |")
            out.append("  |---|---|---|---|")
            for sd in seeds:
                meta = load(os.path.join(sd, "meta.json")) or {}
                oc = load(os.path.join(sd, "outcome.json")) or {}
                oo = load(os.path.join(sd, "outcome_other_checks.json")) or {}
                r = (oc.get("checks") or {}).get(pid, {})
                if r.get("caught"):
                    own = f"caught ({r.get('replay_kind')}: `{r.get('replay_signature')}`)"
                    fin = regression.get(f"{pid}/{os.path.basename(sd)}", {})
                    if fin and not fin.get("caught"):
                        own += "; **not reported in the final regression** (the obligation breaks on some seeds only; see 12.5)"
                    if r.get("replay_kind") != "oracle" and fin.get("kind") == "oracle":
                        own += f"; after strengthening with a concrete failing input (oracle: `{fin.get('signature')}`)"
                elif r:
                    o2 = load(os.path.join(sd, "outcome_after_strengthening.json")) or {}
                    r2 = (o2.get("checks") or {}).get(pid, {})
                    fin = regression.get(f"{pid}/{os.path.basename(sd)}", {})
                    if r2.get("caught"):
                        own = (f"missed by the first version of the check; caught after strengthening "
                               f"({r2.get('replay_kind')}: `{r2.get('replay_signature')}`)")
                    elif fin.get("caught"):
                        own = (f"missed by the first version of the check; reported in the final regression "
                               f"({fin.get('kind')}: `{fin.get('signature')}`)")
                    else:
                        own = "**not reported by this check** (see 12.5)"
                else:
                    own = "not run"
                others = []
                for cid, rr in (oo.get("checks") or {}).items():
                    others.append(f"{cid}: " + (f"caught (`{rr.get('replay_signature')}`)" if rr.get("caught") else "missed"))
                what = (str(meta.get("what_it_breaks", "")) + " — needs: " + str(meta.get("needs_to_manifest", "")))
                what = re.sub(r"\s+", " ", what).replace("|", "/")
                if len(what) > 420:
                    what = what[:417] + "..."
                out.append(f"  | `seeded/{pid}/{os.path.basename(sd)}` | {what} | {own} | {'; '.join(others) or '-'} |")
        out.append("")
    out.append(END)
    p = os.path.join(V, "DESIGN.md")
    s = open(p).read()
    block = "\n".join(out)
    if BEGIN in s:
        s = s[: s.index(BEGIN)] + block + s[s.index(END) + len(END):]
    else:
        s = s.rstrip("\n") + "\n\n" + block + "\n"
    open(p, "w").write(s)
    print("section 12.3 regenerated for", len(checks), "properties")


if __name__ == "__main__":
    main()
