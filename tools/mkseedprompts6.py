#!/venv/bin/python
"""Round-6 seeder prompts from the round-5 ones: new paths, the two round-5 changes of each property added to
the list of changes to avoid, more mechanisms excluded as over-used.  Seeders see ONLY these files."""
import json
import os
import re

V = os.path.dirname(os.path.dirname(os.path.abspath(__file__)))
os.makedirs("/tmp/seedprompts6", exist_ok=True)
for i in range(1, 21):
    p = f"C{i:02d}"
    s = open(f"/tmp/seedprompts5/{p}.txt").read()
    s = s.replace("seed5-", "seed6-").replace("seed-out5", "seed-out6")
    s = s.replace("(This is a FIFTH round. Eight changes were already produced",
                  "(This is a SIXTH round. Ten changes were already produced")
    extra = []
    for m in ("r5m1", "r5m2"):
        meta = json.load(open(os.path.join(V, "seeded", p, m, "meta.json")))
        what = re.sub(r"\s+", " ", str(meta.get("what_it_breaks", "")))[:170]
        extra.append(f"- files {meta.get('files_changed')}: {what}")
    marker = "\nAlso excluded as over-used:"
    assert marker in s, p
    s = s.replace(marker, "\n" + "\n".join(extra) + marker, 1)
    s = s.replace("Also excluded as over-used: ",
                  "Also excluded as over-used: normalising backslashes or Unicode (NFC) in Tree.from_list / as_list; "
                  "ensure_ascii=False in Tree.as_bytes; making HashInfo.obj_name take part in equality; "
                  "`verify and not hardlink`; rejecting the empty listing in Tree.load; str.rstrip('.dir'); "
                  "`if prefix:` / falsy root key () confusions; ", 1)
    open(f"/tmp/seedprompts6/{p}.txt", "w").write(s)
print("ok")
