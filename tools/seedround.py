#!/venv/bin/python
"""seedround.py <round> <prop> [...]  - confirm the seeders' deliverables /tmp/seed-out<round>/<prop>/m{1,2}
with tools/seedtest.py --suite and store each as seeded/<prop>/r<round>m{1,2}/ (patch.diff, demo.py, meta.json,
outcome.json = what I ran and what the designated check reported)."""
import json
import os
import shutil
import subprocess
import sys

V = os.path.dirname(os.path.dirname(os.path.abspath(__file__)))
rnd = sys.argv[1]
for prop in sys.argv[2:]:
    for m in ("m1", "m2"):
        src = f"/tmp/seed-out{rnd}/{prop}/{m}"
        if not os.path.exists(os.path.join(src, "patch.diff")):
            print(prop, m, "NO DELIVERABLE", flush=True)
            continue
        p = subprocess.run(["/venv/bin/python", os.path.join(V, "tools", "seedtest.py"), prop, src, "--suite"],
                           capture_output=True, text=True, timeout=3600, check=False)
        try:
            o = json.loads(p.stdout[p.stdout.index("{"):])
        except Exception:  # noqa: BLE001
            print(prop, m, "UNPARSABLE", p.stdout[-300:], p.stderr[-300:], flush=True)
            continue
        dst = os.path.join(V, "seeded", prop, f"r{rnd}{m}")
        os.makedirs(dst, exist_ok=True)
        for f in ("patch.diff", "demo.py", "meta.json"):
            shutil.copy(os.path.join(src, f), os.path.join(dst, f))
        o["mutant"] = f"seeded/{prop}/r{rnd}{m}"
        with open(os.path.join(dst, "outcome.json"), "w") as f:
            json.dump(o, f, indent=1)
        c = o.get("checks", {}).get(prop, {})
        print(prop, f"r{rnd}{m}", "demo", o.get("demo_clean_rc"), o.get("demo_mutant_rc"), "suite", o.get("suite_rc"),
              "caught", c.get("caught"), c.get("replay_kind"), c.get("replay_signature"), flush=True)
