#!/venv/bin/python
import json,sys
for f in sys.argv[1:]:
    try:
        d=json.load(open(f))
        for c,r in d['checks'].items():
            print(f.split('/')[-1], 'demo', d.get('demo_clean_rc'), d.get('demo_mutant_rc'), 'suite', d.get('suite_tail'), c, 'caught' if r['caught'] else 'MISSED', r.get('replay_kind'), r.get('replay_signature'), r['violation_lines'][:2])
    except Exception as e:
        print(f, 'ERR', e, open(f).read()[-800:])
