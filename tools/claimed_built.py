#!/venv/bin/python
"""setup gate: Properties/Cxx.vo must exist for every check claimed in MANIFEST.json."""
import json
import os
import sys

V = os.path.dirname(os.path.dirname(os.path.abspath(__file__)))
man = json.load(open(os.path.join(V, "MANIFEST.json")))
missing = []
for c in man["checks"]:
    p = os.path.join(V, "coq", "theories", "Properties", c["property_id"] + ".vo")
    if not os.path.exists(p):
        missing.append(p)
if missing:
    print("setup: property files not built:", *missing, sep="\n  ")
    sys.exit(1)
print(f"setup: {len(man['checks'])} claimed property files built")
