#!/venv/bin/python
"""seedtest.py <prop> <mutant-dir> [--tier quick] [--suite] [--checks C01,C02]

Confirms a seeded change (patch.diff + demo.py) and runs our check(s) against it, in a scratch
worktree of /repo (never /repo itself):
  1. demo passes on the clean worktree; 2. patch applies; 3. demo fails with the patch;
  4. (--suite) the repository's test suite still passes; 5. harness/check.py <prop> with
  VERIF_REPO=<worktree> -> caught (VIOLATION line + exit 1) or missed.
Prints one JSON line with the outcome; the worktree is always removed."""
import json
import os
import subprocess
import sys
import tempfile

V = os.path.dirname(os.path.dirname(os.path.abspath(__file__)))


def sh(cmd, env=None, cwd=None, timeout=1800):
    p = subprocess.run(cmd, env=env, cwd=cwd, capture_output=True, text=True, timeout=timeout, check=False)
    return p.returncode, p.stdout + p.stderr


def main():
    args = sys.argv[1:]
    prop, mdir = args[0], os.path.abspath(args[1])
    tier = args[args.index("--tier") + 1] if "--tier" in args else "quick"
    checks = args[args.index("--checks") + 1].split(",") if "--checks" in args else [prop]
    wt = tempfile.mkdtemp(prefix=f"wt-seed-{prop}-")
    os.rmdir(wt)
    out = {"property": prop, "mutant": mdir}
    env = dict(os.environ, PYTHONPATH=wt + "/src", PYTHONHASHSEED="0", PYTHONDONTWRITEBYTECODE="1")
    env.pop("VERIF_REEXEC", None)
    try:
        rc, o = sh(["git", "-C", "/repo", "worktree", "add", "--detach", wt, "HEAD"])
        assert rc == 0, o
        demo = os.path.join(mdir, "demo.py")
        if os.path.exists(demo):
            rc, o = sh(["/venv/bin/python", demo], env=env, cwd=wt, timeout=900)
            out["demo_clean_rc"] = rc
        rc, o = sh(["git", "-C", wt, "apply", os.path.join(mdir, "patch.diff")])
        out["patch_applies"] = rc == 0
        if rc != 0:
            out["apply_error"] = o[-500:]
            print(json.dumps(out))
            return 2
        if os.path.exists(demo):
            rc, o = sh(["/venv/bin/python", demo], env=env, cwd=wt, timeout=900)
            out["demo_mutant_rc"] = rc
            out["demo_mutant_tail"] = o[-400:]
        if "--suite" in args:
            rc, o = sh(["/venv/bin/python", "-m", "pytest", "-q", "-p", "no:cacheprovider", "--timeout=900", "tests"],
                       env=env, cwd=wt, timeout=1800)
            out["suite_rc"] = rc
            out["suite_tail"] = o.strip().splitlines()[-1] if o.strip() else ""
        cenv = dict(os.environ, VERIF_REPO=wt)
        cenv.pop("VERIF_REEXEC", None)
        res = {}
        for c in checks:
            rc, o = sh(["/venv/bin/python", os.path.join(V, "harness", "check.py"), c, "--tier", tier], env=cenv, cwd=V,
                       timeout=3600)
            vio = [ln for ln in o.splitlines() if ln.startswith("VIOLATION")]
            res[c] = {"rc": rc, "violation_lines": vio, "caught": rc == 1 and bool(vio),
                      "tail": o.strip().splitlines()[-6:]}
            for ln in vio:
                # keep a copy of the replay next to the outcome
                try:
                    rp = ln.split("replay=")[1].split()[0]
                    with open(rp) as f:
                        body = json.load(f)
                    res[c]["replay_kind"] = body.get("kind")
                    res[c]["replay_signature"] = body.get("signature")
                    res[c]["replay_what"] = body.get("what")
                except Exception:  # noqa: BLE001
                    pass
        out["checks"] = res
        print(json.dumps(out, indent=1))
        return 0
    finally:
        sh(["git", "-C", "/repo", "worktree", "remove", "--force", wt])
        sh(["git", "-C", "/repo", "worktree", "prune"])


if __name__ == "__main__":
    sys.exit(main())
