"""Translator unit "status" (property C12): hashfile/status.py `_indexed_dir_hashes`, `status`,
`compare_status` (+ the truthiness of an index object, db/index.py) -> coq/theories/Gen/StatusPy.v.

These functions are loops and straight-line *set algebra* over mutable Python sets, outside the
statement subset of units.FuncTr.  This unit has its own fail-closed translation:

  * set-algebra statements are TRANSLATED (not compared with a fixed text): assignments,
    `X.update(E)`, `X.difference_update(E)`, `index.clear()`, `if <set>:` / `if <a> and|or <b>:`
    blocks (SSA lets; a block without else merges the variables it changed), with the expressions
    `set()`, `set(E)`, `A.intersection(B)` / `A & B`, `A.difference(B)` / `A - B`, `A.union(B)` /
    `A | B`, `index.dir_hashes()`, `index.intersection(E)`, the environment calls
    `odb.list_oids_exists(E, jobs=jobs)` and `odb.oids_exist(E, jobs=jobs, progress=...)` (both
    "E intersected with the store's contents": the stated environment hypothesis of the model),
    the transparent wrapper `QueryingProgress(E, total=len(..))`, and the call of the generator
    `_indexed_dir_hashes(odb, index, dir_objs, name, cache_odb, jobs=jobs)` (an abstract function
    argument `idh : index -> index * ids yielded`, instantiated by the translated loop).
    A semantic edit of these statements therefore still translates - and then the tie lemmas of
    coq/theories/Proofs/StatusTie.v (generated definitions = Model/Status.v, for all arguments) no
    longer check: a broken proof obligation of C12.
  * loops and call sites have a checked SHAPE with named degrees of freedom that flow into the
    Gallina text: the membership test guarding `index.update` in the loop of `_indexed_dir_hashes`
    and which ids it yields; in which mode(s) `status` registers a directory for validation
    (`dir_objs[...] = tree` under `if shallow` / `else` / after both); in `compare_status` which
    store / index / cache_odb / **kwargs each `status(...)` call gets, the test of the shortcut,
    the else-branch and the four result sets.
  * anything else raises Unsupported -> the unit fails closed (broken translation obligation).

Python truthiness: `if index` - ObjectDBIndexBase / ObjectDBIndexNoop / ObjectDBIndex define
neither __bool__ nor __len__ (checked), so an index object is true: the test is `is not None`.
`if <set>` / `if dir_objs` is non-emptiness.
"""

from __future__ import annotations

import ast


def _u(node):
    return ast.unparse(node)


IDH_CALL = "_indexed_dir_hashes(odb, index, dir_objs, name, cache_odb, jobs=jobs)"


class SetTr:
    """SSA translation of set-algebra statements.  env: python variable -> current Coq name;
    the index object is the variable 'index' (Coq type [index]); `st` is the store's contents."""

    def __init__(self, U, where, have_dirs=None):
        self.U = U
        self.where = where
        self.count = {}
        self.have_dirs = have_dirs

    def bad(self, msg):
        raise self.U.Unsupported(f"{self.where}: {msg}")

    def fresh(self, var):
        self.count[var] = self.count.get(var, 0) + 1
        return ("ix" if var == "index" else "v_" + var) + str(self.count[var])

    # ---- expressions (value: gset oid).  `pre` collects lets that must precede the statement
    def sx(self, n, env, pre):  # noqa: C901, PLR0911, PLR0912
        if isinstance(n, ast.Name):
            if n.id in env and n.id != "index":
                return env[n.id]
            self.bad(f"unknown set variable `{n.id}`")
        if isinstance(n, ast.BinOp) and isinstance(n.op, (ast.BitAnd, ast.Sub, ast.BitOr)):
            op = {"BitAnd": "∩", "Sub": "∖", "BitOr": "∪"}[type(n.op).__name__]
            return f"({self.sx(n.left, env, pre)} {op} {self.sx(n.right, env, pre)})"
        if isinstance(n, ast.Call):
            f = n.func
            txt = _u(n)
            if txt == "set()":
                return "(∅ : gset oid)"
            if txt == IDH_CALL:
                if "index" not in env:
                    self.bad("_indexed_dir_hashes called without an index")
                ix2, y = self.fresh("index"), self.fresh("yielded")
                pre.append(f"let '({ix2}, {y}) := idh {env['index']} in")
                env["index"] = ix2
                return y
            if isinstance(f, ast.Name) and f.id == "set" and len(n.args) == 1 and not n.keywords:
                return self.sx(n.args[0], env, pre)
            if isinstance(f, ast.Name) and f.id == "QueryingProgress" and len(n.args) == 1 \
                    and [k.arg for k in n.keywords] == ["total"] and isinstance(n.keywords[0].value, ast.Call) \
                    and _u(n.keywords[0].value.func) == "len":
                return self.sx(n.args[0], env, pre)
            if txt == "index.dir_hashes()":
                return f"(ix_dirs {self.ix(env)})"
            if isinstance(f, ast.Attribute):
                recv = _u(f.value)
                if recv == "index" and f.attr == "intersection" and len(n.args) == 1 and not n.keywords:
                    return f"({self.sx(n.args[0], env, pre)} ∩ dom {self.ix(env)})"
                if recv == "odb" and f.attr == "list_oids_exists" and len(n.args) == 1 \
                        and [(k.arg, _u(k.value)) for k in n.keywords] == [("jobs", "jobs")]:
                    return f"({self.sx(n.args[0], env, pre)} ∩ st)"
                if recv == "odb" and f.attr == "oids_exist" and len(n.args) == 1 \
                        and sorted((k.arg, _u(k.value)) for k in n.keywords) == [("jobs", "jobs"), ("progress", "pbar.callback")]:
                    return f"({self.sx(n.args[0], env, pre)} ∩ st)"
                if f.attr in ("intersection", "difference", "union") and len(n.args) == 1 and not n.keywords:
                    op = {"intersection": "∩", "difference": "∖", "union": "∪"}[f.attr]
                    return f"({self.sx(f.value, env, pre)} {op} {self.sx(n.args[0], env, pre)})"
        self.bad(f"unsupported set expression `{_u(n)}`")
        return None

    def ix(self, env):
        if "index" not in env:
            self.bad("the index is used where none is present")
        return env["index"]

    # ---- conditions (value: bool)
    def cx(self, n, env):
        if isinstance(n, ast.Name):
            if n.id == "index":
                return "true" if "index" in env else "false"     # `is not None`, resolved statically
            if n.id == "dir_objs" and self.have_dirs is not None:
                return self.have_dirs
            if n.id == "check_deleted":
                return "check_deleted"
            if n.id in env:
                return f"negb (bool_decide ({env[n.id]} = ∅))"
        if isinstance(n, ast.BoolOp):
            op = " && " if isinstance(n.op, ast.And) else " || "
            return "(" + op.join(self.cx(v, env) for v in n.values) + ")"
        self.bad(f"unsupported condition `{_u(n)}`")
        return None

    # ---- statements; returns the list of let-lines, updates env
    def block(self, stmts, env, indent):  # noqa: C901, PLR0912
        out = []
        pad = " " * indent
        for s in stmts:
            pre = []
            if isinstance(s, ast.ImportFrom):
                continue
            if isinstance(s, ast.Expr) and isinstance(s.value, ast.Constant):
                continue
            if isinstance(s, ast.Expr) and isinstance(s.value, ast.Call) and _u(s.value.func) == "logger.debug":
                continue
            if isinstance(s, (ast.Assign, ast.AnnAssign)):
                tgt = s.targets[0] if isinstance(s, ast.Assign) else s.target
                if isinstance(s, ast.Assign) and len(s.targets) != 1 or not isinstance(tgt, ast.Name) or s.value is None:
                    self.bad(f"unsupported assignment `{_u(s)}`")
                e = self.sx(s.value, env, pre)
                name = self.fresh(tgt.id)
                out += [pad + p for p in pre] + [f"{pad}let {name} := {e} in"]
                env[tgt.id] = name
                continue
            if isinstance(s, ast.Expr) and isinstance(s.value, ast.Call) and isinstance(s.value.func, ast.Attribute):
                c = s.value
                recv, meth = _u(c.func.value), c.func.attr
                if recv == "index" and meth == "clear" and not c.args and not c.keywords:
                    name = self.fresh("index")
                    self.ix(env)
                    out.append(f"{pad}let {name} := (∅ : index) in")
                    env["index"] = name
                    continue
                if isinstance(c.func.value, ast.Name) and recv in env and recv != "index" \
                        and meth in ("update", "difference_update") and len(c.args) == 1 and not c.keywords:
                    e = self.sx(c.args[0], env, pre)
                    op = "∪" if meth == "update" else "∖"
                    name = self.fresh(recv)
                    out += [pad + p for p in pre] + [f"{pad}let {name} := {env[recv]} {op} {e} in"]
                    env[recv] = name
                    continue
            if isinstance(s, ast.With) and len(s.items) == 1 and _u(s.items[0].context_expr).startswith("QueryingProgress(") \
                    and s.items[0].optional_vars is not None and _u(s.items[0].optional_vars) == "pbar":
                out += self.block(s.body, env, indent)
                continue
            if isinstance(s, ast.If) and not s.orelse:
                t = s.test
                no_index = lambda v: isinstance(v, ast.Name) and v.id == "index" and "index" not in env  # noqa: E731
                if no_index(t) or (isinstance(t, ast.BoolOp) and isinstance(t.op, ast.And)
                                   and any(no_index(v) for v in t.values)):
                    continue  # `if index ...` where no index object is present: statically false
                cond = self.cx(s.test, env)
                inner = dict(env)
                lines = self.block(s.body, inner, indent + 4)
                changed = sorted(v for v in env if inner[v] != env[v])
                new_only = [v for v in inner if v not in env]
                if not changed:
                    if lines:
                        self.bad(f"`if {_u(s.test)}:` block without effect on the variables in scope")
                    continue
                names = {v: self.fresh(v) for v in changed}
                tup_new = ", ".join(names[v] for v in changed)
                tup_in = ", ".join(inner[v] for v in changed)
                tup_old = ", ".join(env[v] for v in changed)
                if len(changed) > 1:
                    tup_new, tup_in, tup_old = f"'({tup_new})", f"({tup_in})", f"({tup_old})"
                out.append(f"{pad}let {tup_new} :=")
                out.append(f"{pad}  if {cond} then")
                out += lines
                out.append(f"{pad}    {tup_in}")
                out.append(f"{pad}  else {tup_old} in")
                for v in changed:
                    env[v] = names[v]
                del new_only
                continue
            self.bad(f"unsupported statement `{_u(s).splitlines()[0]}`")
        return out


def _index_truthy(U, u):
    tree, rel = u.load("hashfile/db/index.py")
    for cname in ("ObjectDBIndexBase", "ObjectDBIndexNoop", "ObjectDBIndex"):
        cls = next((n for n in tree.body if isinstance(n, ast.ClassDef) and n.name == cname), None)
        if cls is None:
            raise U.Unsupported(f"{rel}: class {cname} not found")
        names = [s.name for s in cls.body if isinstance(s, ast.FunctionDef)]
        for bad in ("__bool__", "__len__"):
            if bad in names:
                raise U.Unsupported(f"{rel}: {cname} defines {bad}: `if index` is no longer `is not None`")
        u.hash.update(repr((cname, names)).encode())
    # ObjectDBIndex.update / intersection / dir_hashes / clear: the container the model's [index] is
    idx = next(n for n in tree.body if isinstance(n, ast.ClassDef) and n.name == "ObjectDBIndex")
    want = {
        "dir_hashes": "yield from (hash_ for hash_, is_dir in self.index.items() if is_dir)",
        "intersection": "yield from hashes.intersection(self.index.keys())",
        "__contains__": "return hash_ in self.index",
    }
    for m, text in want.items():
        f = next((s for s in idx.body if isinstance(s, ast.FunctionDef) and s.name == m), None)
        body = [s for s in (f.body if f else []) if not (isinstance(s, ast.Expr) and isinstance(s.value, ast.Constant))]
        if f is None or [_u(s) for s in body] != [text]:
            raise U.Unsupported(f"{rel}: ObjectDBIndex.{m} is not `{text}`")
        u.note(f)
    upd = next((s for s in idx.body if isinstance(s, ast.FunctionDef) and s.name == "update"), None)
    if upd is None:
        raise U.Unsupported(f"{rel}: ObjectDBIndex.update not found")
    u.note(upd)
    sets = [(_u(n.targets[0]), _u(n.value)) for n in ast.walk(upd) if isinstance(n, ast.Assign)]
    loops = [(_u(n.target), _u(n.iter)) for n in ast.walk(upd) if isinstance(n, ast.For)]
    if sets != [("self.index[hash_]", "True"), ("self.index[hash_]", "False")] \
            or loops != [("hash_", "dir_hashes"), ("hash_", "file_hashes")]:
        raise U.Unsupported(f"{rel}: ObjectDBIndex.update no longer stores dir_hashes -> True then file_hashes -> False")
    clr = next((s for s in idx.body if isinstance(s, ast.FunctionDef) and s.name == "clear"), None)
    if clr is None or "self.index.clear()" not in _u(clr):
        raise U.Unsupported(f"{rel}: ObjectDBIndex.clear does not clear self.index")
    u.note(clr)


def _body(f):
    """statements without the docstring and local imports"""
    return [s for s in f.body if not (isinstance(s, ast.Expr) and isinstance(s.value, ast.Constant))
            and not isinstance(s, ast.ImportFrom)]


def _indexed_dir_hashes(U, u, tree, rel):
    f = u.find_func(tree, "_indexed_dir_hashes")
    u.note(f)
    where = f"{rel}:_indexed_dir_hashes"
    if [a.arg for a in f.args.args] != ["odb", "index", "dir_objs", "name", "cache_odb", "jobs"]:
        raise U.Unsupported(f"{where}: signature changed")
    body = _body(f)
    loops = [i for i, s in enumerate(body) if isinstance(s, ast.For)]
    if len(loops) != 1 or loops[0] != len(body) - 1:
        raise U.Unsupported(f"{where}: the body is not <set algebra> followed by one final `for` loop")
    pre, loop = body[:-1], body[-1]
    if not pre or _u(pre[0]) != "dir_hashes = set(dir_objs.keys())":
        raise U.Unsupported(f"{where}: the first statement is not `dir_hashes = set(dir_objs.keys())`")
    tr = SetTr(U, where)
    env = {"dir_hashes": "dir_hashes", "index": "ix0"}
    lines = tr.block(pre[1:], env, 2)
    if not (isinstance(loop.target, ast.Name) and isinstance(loop.iter, ast.Name) and loop.iter.id in env
            and loop.iter.id not in ("index",) and not loop.orelse):
        raise U.Unsupported(f"{where}: the loop is not `for <dir> in <set computed above>:`")
    d = loop.target.id
    visited = env[loop.iter.id]
    o = u.out
    o.append(f"(* {rel}:{f.lineno} _indexed_dir_hashes, lines before the loop: which requested directory ids are taken\n"
             "   to exist (the set the loop iterates over), and the index after the possible clear.\n"
             "   [st] = contents of the store; odb.list_oids_exists(X) = X ∩ st (environment hypothesis). *)\n"
             "Definition py_validate (st : gset oid) (ix0 : index) (dir_hashes : gset oid) : index * gset oid :=\n"
             + "\n".join(lines) + f"\n  ({env['index']}, {visited}).\n")

    # ---- the loop body
    lb = loop.body
    exp_head = [
        f"tree = dir_objs.get({d})",
        f"if not tree:\n    try:\n        tree = Tree.load(cache_odb, HashInfo(name, {d}))\n    except FileNotFoundError:\n        continue",
        "file_hashes = [hi.value for _, _, hi in tree]",
    ]
    if [_u(s) for s in lb[:3]] != exp_head:
        raise U.Unsupported(f"{where}: the loop does not start with get / load-or-continue / file_hashes: "
                            f"`{_u(lb[0]) if lb else ''}` ...")
    rest = lb[3:]
    guard = None
    yields = []
    for s in rest:
        if isinstance(s, ast.If) and not s.orelse and isinstance(s.test, ast.Compare) and len(s.test.ops) == 1 \
                and isinstance(s.test.ops[0], (ast.In, ast.NotIn)) and _u(s.test.left) == d \
                and _u(s.test.comparators[0]) == "index":
            inner = [x for x in s.body if not (isinstance(x, ast.Expr) and isinstance(x.value, ast.Call)
                                               and _u(x.value.func) == "logger.debug")]
            if guard is not None or yields or [_u(x) for x in inner] != [f"index.update([{d}], file_hashes)"]:
                raise U.Unsupported(f"{where}: the guarded statement is not `index.update([{d}], file_hashes)` "
                                    "before the yields")
            guard = "notin" if isinstance(s.test.ops[0], ast.NotIn) else "in"
        elif isinstance(s, ast.Expr) and isinstance(s.value, ast.YieldFrom) and _u(s.value.value) == "file_hashes":
            yields.append("files")
        elif isinstance(s, ast.Expr) and isinstance(s.value, ast.Yield) and s.value.value is not None \
                and _u(s.value.value) in ("tree.hash_info.value", d):
            yields.append("dir")
        else:
            raise U.Unsupported(f"{where}: unexpected statement in the loop: `{_u(s).splitlines()[0]}`")
    if guard is None:
        upd = "acc.1"
        gtxt = "(no index.update in the loop)"
    else:
        test = "bool_decide (D ∈ dom acc.1)"
        if guard == "notin":
            test = f"negb ({test})"
        upd = f"if {test} then ix_update acc.1 D l else acc.1"
        gtxt = f"if {d} {'not in' if guard == 'notin' else 'in'} index: index.update([{d}], file_hashes)"
    ys = "acc.2"
    for y in yields:
        ys += " ∪ list_to_set l" if y == "files" else " ∪ {[D]}"
    o.append(f"(* {rel}:{loop.lineno} one iteration of the loop: {gtxt}; yields: {', '.join(yields) or 'nothing'}.\n"
             "   [load D = None]: Tree.load raised FileNotFoundError -> continue.  tree.hash_info.value = D. *)\n"
             "Definition py_index_dir (load : loader) (acc : index * gset oid) (D : oid) : index * gset oid :=\n"
             "  match load D with\n  | None => acc\n"
             f"  | Some l => ({upd}, {ys})\n  end.\n")
    o.append("(* the generator as a whole; the loop visits the requested directories that are in the set computed\n"
             "   above (iteration order of a Python set: see StatusProofs.indexed_loop_perm) *)\n"
             "Definition py_indexed_dir_hashes (st : gset oid) (load : loader) (ix : index) (dirs : list oid)\n"
             "  : index * gset oid :=\n"
             "  let '(ix1, visit) := py_validate st ix (list_to_set dirs) in\n"
             "  foldl (py_index_dir load) (ix1, ∅) (filter (λ D, D ∈ visit) dirs).\n")


def _status(U, u, tree, rel):  # noqa: C901, PLR0912, PLR0915
    f = u.find_func(tree, "status")
    u.note(f)
    where = f"{rel}:status"
    names = [a.arg for a in f.args.args]
    defaults = dict(zip(names[-len(f.args.defaults):], (_u(d) for d in f.args.defaults)))
    if names != ["odb", "obj_ids", "name", "index", "cache_odb", "shallow", "jobs"] \
            or defaults.get("shallow") != "True" or defaults.get("index") != "None" or defaults.get("cache_odb") != "None":
        raise U.Unsupported(f"{where}: signature / defaults changed: {names} {defaults}")
    body = _body(f)
    texts = [_u(s) for s in body]
    try:
        i_loop = next(i for i, s in enumerate(body) if isinstance(s, ast.For))
    except StopIteration:
        raise U.Unsupported(f"{where}: no collection loop") from None
    head = texts[:i_loop]
    exp_head = [
        "logger.debug(\"Preparing to collect status from '%s'\", odb.path)",
        "if not name:\n    name = odb.hash_name",
        "if cache_odb is None:\n    cache_odb = odb",
        "hash_infos: dict[str, HashInfo] = {}",
        "dir_objs: dict[str, Optional[HashFile]] = {}",
    ]
    if head != exp_head:
        raise U.Unsupported(f"{where}: the statements before the collection loop changed")
    loop = body[i_loop]
    if not (_u(loop.target) == "hash_info" and _u(loop.iter) == "obj_ids" and not loop.orelse):
        raise U.Unsupported(f"{where}: the collection loop is not `for hash_info in obj_ids:`")
    lb = loop.body
    if len(lb) != 3 or _u(lb[0]) != "assert hash_info.value" or _u(lb[2]) != "hash_infos[hash_info.value] = hash_info" \
            or not (isinstance(lb[1], ast.If) and _u(lb[1].test) == "hash_info.isdir" and not lb[1].orelse):
        raise U.Unsupported(f"{where}: the collection loop is not assert / if hash_info.isdir: .. / hash_infos[..] = hash_info")
    reg_text = "if index:\n    dir_objs[hash_info.value] = tree"
    reg = {"shallow": False, "expanded": False}
    isdir_body = lb[1].body

    def strip(stmts, mode):
        out = []
        for s in stmts:
            if _u(s) == reg_text:
                if mode is None:
                    reg["shallow"] = reg["expanded"] = True
                else:
                    reg[mode] = True
            else:
                out.append(s)
        return out

    top = strip(isdir_body, None)
    if len(top) != 1 or not (isinstance(top[0], ast.If) and _u(top[0].test) == "shallow"):
        raise U.Unsupported(f"{where}: under `if hash_info.isdir:` there is not exactly one `if shallow: .. else: ..` "
                            "(+ the registration in dir_objs)")
    sh_body = [_u(s) for s in strip(top[0].body, "shallow")]
    ex_body = [_u(s) for s in strip(top[0].orelse, "expanded")]
    if sh_body != ["tree = None"]:
        raise U.Unsupported(f"{where}: the shallow branch is not `tree = None`")
    exp_ex = ["tree = Tree.load(cache_odb, hash_info)",
              "for _, _, oid in tree:\n    assert oid\n    assert oid.value\n    hash_infos[oid.value] = oid"]
    if ex_body != exp_ex:
        raise U.Unsupported(f"{where}: the expanding branch is not load + `hash_infos[oid.value] = oid` for every entry")
    after = body[i_loop + 1:]
    if not after or _u(after[0]) != ("if odb.fs.protocol == Schemes.MEMORY:\n"
                                     "    return StatusResult(set(hash_infos.values()), set())"):
        raise U.Unsupported(f"{where}: the MEMORY-protocol shortcut changed (it is outside the model)")
    tail = after[1:]
    if len(tail) < 3 or _u(tail[0]) != "hashes: set[str] = set(hash_infos.keys())":
        raise U.Unsupported(f"{where}: `hashes: set[str] = set(hash_infos.keys())` not found after the loop")
    ret = tail[-1]
    ok = (isinstance(ret, ast.Return) and isinstance(ret.value, ast.Call) and _u(ret.value.func) == "StatusResult"
          and len(ret.value.args) == 2 and not ret.value.keywords
          and all(isinstance(a, ast.SetComp) and _u(a.elt) == "hash_infos[hash_]" and len(a.generators) == 1
                  and _u(a.generators[0].target) == "hash_" and not a.generators[0].ifs for a in ret.value.args))
    if not ok:
        raise U.Unsupported(f"{where}: the result is not StatusResult({{hash_infos[h] for h in A}}, {{hash_infos[h] for h in B}})")
    mid = [s for s in tail[1:-1]
           if not (isinstance(s, ast.Expr) and isinstance(s.value, ast.Call) and _u(s.value.func) == "logger.debug")]

    o = u.out
    o.append(f"(* {rel}:{loop.lineno} status(), the collection loop: a requested directory id is registered for index\n"
             "   validation (dir_objs[...] = tree, under `if index`) in shallow mode / in expanding mode *)\n"
             f"Definition py_registers_shallow : bool := {'true' if reg['shallow'] else 'false'}.\n"
             f"Definition py_registers_expanded : bool := {'true' if reg['expanded'] else 'false'}.\n")
    for with_index in (True, False):
        tr = SetTr(U, where, have_dirs="have_dirs")
        env = {"hashes": "hashes0"}
        if with_index:
            env["index"] = "ix0"
        lines = tr.block(mid, env, 2)
        pre = []
        a = tr.sx(ret.value.args[0].generators[0].iter, env, pre)
        b = tr.sx(ret.value.args[1].generators[0].iter, env, pre)
        if pre:
            raise U.Unsupported(f"{where}: effect inside the return expression")
        if with_index:
            o.append(f"(* {rel}:{tail[0].lineno} status() after the collection, WITH an index object ([if index] is true).\n"
                     "   hashes0 = the collected ids; have_dirs = [bool(dir_objs)]; idh = the generator\n"
                     "   _indexed_dir_hashes(odb, index, dir_objs, ...) : index before -> (index after, ids yielded);\n"
                     "   odb.oids_exist(X) = X ∩ st (environment hypothesis).  Result: (exists, missing, index after). *)\n"
                     "Definition py_status_tail_ix (st : gset oid) (ix0 : index) (hashes0 : gset oid) (have_dirs : bool)\n"
                     "    (idh : index → index * gset oid) : gset oid * gset oid * index :=\n"
                     + "\n".join(lines) + f"\n  ({a}, {b}, {env['index']}).\n")
        else:
            o.append(f"(* {rel}:{tail[0].lineno} the same statements WITHOUT an index ([if index] is false) *)\n"
                     "Definition py_status_tail_plain (st : gset oid) (hashes0 : gset oid) (have_dirs : bool)\n"
                     "    : gset oid * gset oid :=\n"
                     + "\n".join(lines) + f"\n  ({a}, {b}).\n")


def _compare(U, u, tree, rel):  # noqa: C901, PLR0912
    f = u.find_func(tree, "compare_status")
    u.note(f)
    where = f"{rel}:compare_status"
    names = [a.arg for a in f.args.args]
    if names != ["src", "dest", "obj_ids", "check_deleted", "src_index", "dest_index", "cache_odb", "jobs"] \
            or f.args.kwarg is None or f.args.kwarg.arg != "kwargs" or f.args.vararg:
        raise U.Unsupported(f"{where}: signature changed")
    body = _body(f)
    if len(body) != 4 or _u(body[0]) != "if cache_odb is None:\n    cache_odb = src":
        raise U.Unsupported(f"{where}: not `if cache_odb is None: cache_odb = src` / dest status / src status or shortcut / return")

    def status_call(s, what):
        if not (isinstance(s, ast.Assign) and len(s.targets) == 1 and isinstance(s.targets[0], ast.Tuple)
                and len(s.targets[0].elts) == 2 and all(isinstance(e, ast.Name) for e in s.targets[0].elts)
                and isinstance(s.value, ast.Call) and _u(s.value.func) == "status"):
            raise U.Unsupported(f"{where}: {what} is not `<exists>, <missing> = status(...)`")
        c = s.value
        if len(c.args) != 2 or _u(c.args[1]) != "obj_ids" or _u(c.args[0]) not in ("src", "dest"):
            raise U.Unsupported(f"{where}: {what}: positional arguments are not (<src|dest>, obj_ids)")
        kws = {}
        fwd = False
        for k in c.keywords:
            if k.arg is None:
                if _u(k.value) != "kwargs":
                    raise U.Unsupported(f"{where}: {what}: `**{_u(k.value)}`")
                fwd = True
            else:
                kws[k.arg] = _u(k.value)
        if set(kws) - {"index", "jobs", "cache_odb"} or kws.get("jobs", "jobs") != "jobs":
            raise U.Unsupported(f"{where}: {what}: keywords {kws}")
        store = _u(c.args[0])
        idx = kws.get("index", "None")
        if idx not in ("src_index", "dest_index", "None"):
            raise U.Unsupported(f"{where}: {what}: index={idx}")
        cache = kws.get("cache_odb")
        if cache not in (None, "cache_odb"):
            raise U.Unsupported(f"{where}: {what}: cache_odb={cache}")
        # which store the trees are loaded from: cache_odb (default src) if passed, else the store itself
        if cache is not None:
            loader = "load_d"          # cache_odb or src
        elif store == "src":
            loader = "load_s"          # src itself
        else:
            raise U.Unsupported(f"{where}: {what}: status(dest, ...) without cache_odb loads trees from dest itself "
                                "(outside the model's two loaders)")
        return {"vars": [e.id for e in s.targets[0].elts], "store": {"src": "src", "dest": "dst"}[store],
                "index": {"src_index": "six", "dest_index": "dix", "None": "None"}[idx],
                "loader": loader, "shallow": "shallow" if fwd else "true", "fwd": fwd}

    first = status_call(body[1], "the first status call")
    branch = body[2]
    if not (isinstance(branch, ast.If) and len(branch.body) == 1 and branch.orelse):
        raise U.Unsupported(f"{where}: the third statement is not `if <test>: <status call> else: <assignments>`")
    second = status_call(branch.body[0], "the second status call")
    if len({first["index"], second["index"]} - {"None"}) != len([x for x in (first["index"], second["index"]) if x != "None"]):
        raise U.Unsupported(f"{where}: both status calls use the same index")
    tr = SetTr(U, where)
    e_vars = {first["vars"][0]: "v_" + first["vars"][0], first["vars"][1]: "v_" + first["vars"][1]}
    cond = tr.cx(branch.test, dict(e_vars))
    env_then = dict(e_vars)
    env_then.update({second["vars"][0]: "v_" + second["vars"][0], second["vars"][1]: "v_" + second["vars"][1]})
    env_else = dict(e_vars)
    else_lines = tr.block(branch.orelse, env_else, 6)
    ret = body[3]
    if not (isinstance(ret, ast.Return) and isinstance(ret.value, ast.Call) and _u(ret.value.func) == "CompareStatusResult"
            and len(ret.value.args) == 4 and not ret.value.keywords):
        raise U.Unsupported(f"{where}: the result is not CompareStatusResult(ok, missing, new, deleted)")

    def result(env):
        pre = []
        parts = [tr.sx(a, env, pre) for a in ret.value.args]
        if pre:
            raise U.Unsupported(f"{where}: effect inside the return expression")
        return ("{| c_ok := %s; c_missing := %s; c_new := %s; c_deleted := %s |}" % tuple(parts))

    try:
        r_then, r_else = result(env_then), result(env_else)
    except U.Unsupported as exc:
        raise U.Unsupported(f"{exc} (a variable of the result is not assigned on every path)") from None

    def idx_after(call, primed):
        return primed if call["index"] != "None" else None

    # which index each call threads through
    def call_term(c):
        return f"status {c['store']} {c['loader']} {c['index'] if c['index'] != 'None' else 'None'} q {c['shallow']}"

    def outs(first_ix, second_ix):
        # (six', dix') of the result
        m = {"six": "six", "dix": "dix"}
        if first["index"] != "None":
            m[first["index"]] = first_ix
        if second_ix is not None and second["index"] != "None":
            m[second["index"]] = second_ix
        return f"{m['six']}, {m['dix']}"

    v1, v2 = ("v_" + x for x in first["vars"])
    w1, w2 = ("v_" + x for x in second["vars"])
    o = u.out
    o.append(f"(* {rel}:{f.lineno} compare_status.  first call: status({first['store']}, index={first['index']}, "
             f"trees from {first['loader']}, kwargs forwarded: {first['fwd']});\n"
             f"   test `{_u(branch.test)}`; second call: status({second['store']}, index={second['index']}, "
             f"trees from {second['loader']}, kwargs forwarded: {second['fwd']}).\n"
             "   load_s = trees loaded from src itself, load_d = from cache_odb (default src); **kwargs carries `shallow`\n"
             "   (a call that does not forward it runs with the default shallow=True). *)\n"
             "Definition py_compare_status (src dst : gset oid) (load_s load_d : loader) (six dix : option index)\n"
             "    (q : list oid) (shallow check_deleted : bool) : result (cmp * option index * option index) :=\n"
             f"  match {call_term(first)} with\n"
             "  | Err k => Err k\n"
             f"  | Ok ({v1}, {v2}, ix_first) =>\n"
             f"      if {cond} then\n"
             f"        match {call_term(second)} with\n"
             "        | Err k => Err k\n"
             f"        | Ok ({w1}, {w2}, ix_second) =>\n"
             f"            Ok ({r_then}, {outs('ix_first', 'ix_second')})\n"
             "        end\n"
             "      else\n" + "\n".join(else_lines) + ("\n" if else_lines else "")
             + f"        Ok ({r_else}, {outs('ix_first', None)})\n"
             "  end.\n")


def unit_status(u):
    import units as U

    _index_truthy(U, u)
    tree, rel = u.load("hashfile/status.py")
    u.cur_rel = rel
    u.out.append("(* the translated fragments use the primitives of Model/Status.v (oid, index, loader, ix_dirs,\n"
                 "   ix_update, status, cmp, result); Proofs/StatusTie.v proves them equal to the model's functions *)\n")
    _indexed_dir_hashes(U, u, tree, rel)
    _status(U, u, tree, rel)
    _compare(U, u, tree, rel)
    return u
