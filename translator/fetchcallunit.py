"""Translator unit "fetchcall" (property C18): the transfer() calls of index/fetch.py fetch() and index/push.py
push() -> coq/theories/Gen/FetchCall.v.

Read from the source on every run (fail closed on any other shape): which store is the source and which the
destination, whose `verify` flag is handed on (fetch: the REMOTE's; push: none), whose remote index is used
(`src_index` / `dest_index` = get_index(data.odb)), the `cache_odb` argument, the requested ids
(`[entry.hash_info for _, entry in fs_index.iteritems() if entry.hash_info]`) and how the result is counted
(`len(result.transferred)`, `len(result.failed)`).
"""

from __future__ import annotations

import ast

ODB = {"data.odb": "OdbRemote", "cache.odb": "OdbCache"}
IDS = "[entry.hash_info for _, entry in fs_index.iteritems() if entry.hash_info]"


def _u(n):
    return ast.unparse(n)


def unit_fetchcall(u):
    import units as U

    def bad(msg):
        raise U.Unsupported("fetchcall: " + msg)

    def the_call(fn, where):
        calls = [n for n in ast.walk(fn) if isinstance(n, ast.Call) and _u(n.func) == "transfer"]
        if len(calls) != 1:
            bad(f"{where}: {len(calls)} transfer() calls")
        c = calls[0]
        if len(c.args) != 3 or _u(c.args[0]) not in ODB or _u(c.args[1]) not in ODB or ast.dump(c.args[2]) != ast.dump(ast.parse(IDS, mode="eval").body):
            bad(f"{where}: positional arguments changed: {[_u(a)[:60] for a in c.args]}")
        kws = {k.arg: _u(k.value) for k in c.keywords}
        if None in kws:
            bad(f"{where}: **kwargs in the transfer call")
        return c, kws

    def counted(fn, var, field, where):
        want = f"{var} += len(result.{field})"
        if sum(1 for n in ast.walk(fn) if isinstance(n, ast.AugAssign) and _u(n) == want) != 1:
            bad(f"{where}: `{want}` not found exactly once")

    def index_of(fn, name, where):
        # with closing(get_index(<odb>)) as <name>
        for n in ast.walk(fn):
            if isinstance(n, ast.With):
                for it in n.items:
                    if it.optional_vars is not None and _u(it.optional_vars) == name:
                        t = _u(it.context_expr)
                        for k, v in ODB.items():
                            if t == f"closing(get_index({k}))":
                                return v
                        bad(f"{where}: {name} comes from {t}")
        bad(f"{where}: {name} is not bound by a with statement")

    o = u.out
    o.append("Inductive odb_of := OdbRemote | OdbCache.\n")

    ftree, frel = u.load("index/fetch.py")
    f = u.find_func(ftree, "fetch")
    u.note(f)
    c, kws = the_call(f, "fetch")
    if set(kws) != {"jobs", "src_index", "cache_odb", "verify", "validate_status", "callback"}:
        bad(f"fetch: keyword arguments changed: {sorted(kws)}")
    if not kws["verify"].endswith(".verify") or kws["verify"][:-len(".verify")] not in ODB:
        bad(f"fetch: verify={kws['verify']}")
    if kws["cache_odb"] not in ODB or kws["src_index"] != "src_index":
        bad(f"fetch: cache_odb={kws['cache_odb']} src_index={kws['src_index']}")
    counted(f, "fetched", "transferred", "fetch")
    counted(f, "failed", "failed", "fetch")
    o.append(f"(* {frel}:{c.lineno} the transfer call of fetch() *)\n"
             f"Definition fetch_src : odb_of := {ODB[_u(c.args[0])]}.\n"
             f"Definition fetch_dst : odb_of := {ODB[_u(c.args[1])]}.\n"
             f"Definition fetch_verify_flag_of : odb_of := {ODB[kws['verify'][:-len('.verify')]]}.\n"
             f"Definition fetch_src_index_of : odb_of := {index_of(f, 'src_index', 'fetch')}.\n"
             f"Definition fetch_cache_odb : odb_of := {ODB[kws['cache_odb']]}.\n"
             "Definition fetch_requests_every_hashed_entry : bool := true.\n"
             "Definition fetch_counts_transferred_and_failed : bool := true.\n")

    ptree, prel = u.load("index/push.py")
    p = u.find_func(ptree, "push")
    u.note(p)
    c, kws = the_call(p, "push")
    if set(kws) != {"jobs", "dest_index", "cache_odb", "validate_status", "callback"}:
        bad(f"push: keyword arguments changed: {sorted(kws)}")
    if kws["cache_odb"] not in ODB or kws["dest_index"] != "dest_index":
        bad(f"push: cache_odb={kws['cache_odb']} dest_index={kws['dest_index']}")
    counted(p, "pushed", "transferred", "push")
    counted(p, "failed", "failed", "push")
    o.append(f"(* {prel}:{c.lineno} the transfer call of push() *)\n"
             f"Definition push_src : odb_of := {ODB[_u(c.args[0])]}.\n"
             f"Definition push_dst : odb_of := {ODB[_u(c.args[1])]}.\n"
             "Definition push_passes_verify : bool := false.   (* the destination store's own setting decides *)\n"
             f"Definition push_dest_index_of : odb_of := {index_of(p, 'dest_index', 'push')}.\n"
             f"Definition push_cache_odb : odb_of := {ODB[kws['cache_odb']]}.\n"
             "Definition push_requests_every_hashed_entry : bool := true.\n"
             "Definition push_counts_transferred_and_failed : bool := true.\n")
    return u
