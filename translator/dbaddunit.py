"""Translator unit "dbadd" (properties C01, C02, C15, C16): hashfile/db/__init__.py HashFileDB.add and
add_update_tree, hashfile/db/migrate.py migrate / prepare / _hash_task -> coq/theories/Gen/DbAdd.v.

HashFileDB.add is the one routine through which every object enters a store; the models of C15
(Model/AddSteps.v), C16 (Model/Concurrent.v), C01/C02 (Model/StoreOps.v, Model/RoundTrip.v) all replay
its statement order: effective verify flag, pre-add check of the requested oids, the copies
(ObjectDB.add in dvc_objects), then per DISTINCT requested oid check-if-verifying + protect under two
exception handlers, then ONE state transaction.  The routine is outside the statement subset of
units.FuncTr (try/except, super(), dict comprehension, generator argument), so it has its own
fail-closed shape check: the body must consist of exactly the statement sequence below (compared on
the unparsed AST); what flows from the source into the Gallina text are the DECISIONS:

  s0  `verify = kwargs.get('verify')`                                  (fixed)
  s1  `if verify is None: verify = self.verify`                        (fixed)   -> eff_verify
  s2  `paths = [path] if isinstance(path, str) else path`              (fixed)
  s3  `oids = [oid] if isinstance(oid, str) else oid`                  (fixed)
  s4  `assert len(paths) == len(oids)`                                 (fixed)
  s5  `if <T5>: for o in <I5>: try: self.check(o, check_hash=<C5>)
                               except (<E5...>): pass`                 -> pre_runs verify := T5,
                                                                          pre_over := OidsGiven | OidsDistinct,
                                                                          pre_check_hash := C5, pre_swallows := [E5...]
  s6  `transferred = super().add(paths, fs, oids, hardlink=<H>, callback=callback,
                                 check_exists=<X>, on_error=<R>, **kwargs)`
                                                                       -> copy_hardlink / copy_check_exists /
                                                                          copy_reports (parameter passed through, or a constant)
  s7  `oid_cache_paths = {o: self.oid_to_path(o) for o in oids}`       (fixed: distinct oids, first-occurrence order)
  s8  `for o, cache_path in oid_cache_paths.items(): try: <B8...> except <E>: <A> ...`
        B8 statements: `if <T>: self.check(o, check_hash=<C>)` | `self.check(o, check_hash=<C>)` |
                       `self.protect(cache_path)`                      -> post_body verify : list post_act
        handlers: `pass` | `if on_error is not None: on_error(o, exc)` -> post_handlers : list (exc * hact)
  s9  `self.state.save_many(((cache_path, HashInfo(name=self.hash_name, value=o), None)
                             for o, cache_path in oid_cache_paths.items()), self.fs)`      (fixed)
                                                                       -> save_over := OidsDistinct, save_value := SaveOid
  s10 `return transferred`                                             (fixed)
  + the defaults of hardlink / check_exists / on_error in the signature, HashFileDB.DEFAULT_VERIFY.

add_update_tree: `assert tree.oid; odb.add(tree.path, tree.fs, tree.oid, hardlink=<H>); raw = odb.get(tree.oid);
tree.fs = raw.fs; tree.path = raw.path; return tree`  -> tree_add_hardlink, tree_add_passes_verify := false.

migrate.py: migrate = `src, dest, paths, oids = migration; return dest.add(paths, src.fs, oids, hardlink=<H>,
callback=callback)` -> migrate_hardlink, migrate_into := Dest, migrate_from_fs := Src;
_hash_task: `if path.endswith('.dir'): hash_info.value += '.dir'` -> migrate_oid; prepare: what is listed
(src._list_oids through src.oid_to_path), hashed with (dest.hash_name, src.fs, state=dest.state).
Anything else -> Unsupported (a broken translation obligation).
"""

from __future__ import annotations

import ast

RUNTIME = '''(* ---- fixed text of this unit ------------------------------------------------------------------ *)
Inductive exc := ExcObjectFormat | ExcFileNotFound | ExcOther.
Inductive oid_iter := OidsGiven | OidsDistinct.     (* `oids` as passed / the keys of the oid -> path dict *)
Inductive post_act := PCheck (check_hash : bool) | PProtect.
Inductive hact := HPass | HReport.                  (* `pass` / `if on_error is not None: on_error(o, exc)` *)
Inductive save_val := SaveOid.                      (* HashInfo(name=self.hash_name, value=o) *)
Inductive add_stmt := SEffVerify | SNormalise | SPre | SCopy | SPaths | SPost | SSave | SReturn.
Inductive side := Src | Dest.
Definition exc_eqb (a b : exc) : bool :=
  match a, b with
  | ExcObjectFormat, ExcObjectFormat | ExcFileNotFound, ExcFileNotFound | ExcOther, ExcOther => true
  | _, _ => false
  end.
'''

EXC = {"ObjectFormatError": "ExcObjectFormat", "FileNotFoundError": "ExcFileNotFound"}


def _u(n):
    return ast.unparse(n)


def _strip(body):
    return [s for s in body if not (isinstance(s, ast.Expr) and isinstance(s.value, ast.Constant)
                                    and isinstance(s.value.value, str))]


def unit_dbadd(u):
    import units as U

    def bad(msg):
        raise U.Unsupported("dbadd: " + msg)

    def boolexp(node, atoms, where):
        if isinstance(node, ast.BoolOp):
            op = " && " if isinstance(node.op, ast.And) else " || "
            return "(" + op.join(boolexp(v, atoms, where) for v in node.values) + ")"
        if isinstance(node, ast.UnaryOp) and isinstance(node.op, ast.Not):
            return f"(negb {boolexp(node.operand, atoms, where)})"
        if isinstance(node, ast.Constant) and isinstance(node.value, bool):
            return "true" if node.value else "false"
        t = _u(node)
        if t in atoms:
            return atoms[t]
        bad(f"{where}: `{t}` is not a boolean over {sorted(atoms)}")

    def exc_types(node, where):
        if node is None:
            bad(f"{where}: bare except")
        elts = node.elts if isinstance(node, ast.Tuple) else [node]
        out = []
        for e in elts:
            if _u(e) not in EXC:
                bad(f"{where}: handler for `{_u(e)}` (only {sorted(EXC)} are modelled)")
            out.append(EXC[_u(e)])
        return out

    def check_call(node, where):
        """`self.check(o, check_hash=<const>)` -> const"""
        if not (isinstance(node, ast.Expr) and isinstance(node.value, ast.Call) and _u(node.value.func) == "self.check"
                and [_u(a) for a in node.value.args] == ["o"] and len(node.value.keywords) == 1
                and node.value.keywords[0].arg == "check_hash"
                and isinstance(node.value.keywords[0].value, ast.Constant)
                and isinstance(node.value.keywords[0].value.value, bool)):
            bad(f"{where}: not `self.check(o, check_hash=<bool>)`: `{_u(node)}`")
        return "true" if node.value.keywords[0].value.value else "false"

    t_db, rel = u.load("hashfile/db/__init__.py")
    u.cur_rel = rel
    cls = next((n for n in t_db.body if isinstance(n, ast.ClassDef) and n.name == "HashFileDB"), None)
    if cls is None:
        bad("class HashFileDB not found")
    if [_u(b) for b in cls.bases] != ["ObjectDB"]:
        bad(f"HashFileDB bases are {[_u(b) for b in cls.bases]} (super().add is no longer ObjectDB.add)")
    imp = [s for s in t_db.body if isinstance(s, ast.ImportFrom) and any(a.name == "ObjectDB" for a in s.names)]
    if len(imp) != 1 or imp[0].module != "dvc_objects.db":
        bad("ObjectDB is not imported from dvc_objects.db")
    dv = next((s for s in cls.body if isinstance(s, ast.Assign) and _u(s.targets[0]) == "DEFAULT_VERIFY"), None)
    if dv is None or not (isinstance(dv.value, ast.Constant) and isinstance(dv.value.value, bool)):
        bad("HashFileDB.DEFAULT_VERIFY is not a boolean constant")
    u.note(dv)
    init = u.find_func(t_db, "HashFileDB.__init__")
    if "self.verify = config.get('verify', self.DEFAULT_VERIFY)" not in [_u(s) for s in init.body]:
        bad("HashFileDB.__init__ no longer sets `self.verify = config.get('verify', self.DEFAULT_VERIFY)`")

    f = u.find_func(t_db, "HashFileDB.add")
    u.note(f)
    a = f.args
    names = [x.arg for x in a.args]
    if names != ["self", "path", "fs", "oid", "hardlink", "callback", "check_exists", "on_error"] or a.vararg \
            or a.kwonlyargs or a.posonlyargs or a.kwarg is None or a.kwarg.arg != "kwargs" or len(a.defaults) != 4 \
            or f.decorator_list:
        bad(f"signature of HashFileDB.add changed: `{_u(a)}`")
    d_hl, d_cb, d_ce, d_oe = a.defaults
    for d, nm in ((d_hl, "hardlink"), (d_ce, "check_exists")):
        if not (isinstance(d, ast.Constant) and isinstance(d.value, bool)):
            bad(f"default of {nm} is not a boolean constant")
    if _u(d_oe) != "None" or _u(d_cb) != "DEFAULT_CALLBACK":
        bad("defaults of callback / on_error changed")
    body = _strip(f.body)
    if len(body) != 11:
        bad(f"HashFileDB.add has {len(body)} statements, expected 11: {[type(s).__name__ for s in body]}")

    def fixed(i, text, what):
        if _u(body[i]) != text:
            bad(f"statement {i} is not {what}: `{_u(body[i])}`")

    fixed(0, "verify = kwargs.get('verify')", "`verify = kwargs.get('verify')`")
    fixed(1, "if verify is None:\n    verify = self.verify", "`if verify is None: verify = self.verify`")
    fixed(2, "paths = [path] if isinstance(path, str) else path", "the normalisation of `path`")
    fixed(3, "oids = [oid] if isinstance(oid, str) else oid", "the normalisation of `oid`")
    fixed(4, "assert len(paths) == len(oids)", "`assert len(paths) == len(oids)`")

    # s5: the pre-add check
    s = body[5]
    if not (isinstance(s, ast.If) and not s.orelse and len(s.body) == 1 and isinstance(s.body[0], ast.For)):
        bad(f"statement 5 is not `if <test>: for o in <oids>: ...`: `{_u(s)}`")
    t5 = boolexp(s.test, {"verify": "verify"}, "pre-add check guard")
    loop = s.body[0]
    if _u(loop.target) != "o" or loop.orelse:
        bad("pre-add loop target is not `o`")
    it5 = {"oids": "OidsGiven", "dict.fromkeys(oids)": "OidsDistinct"}.get(_u(loop.iter), None)
    if it5 is None:
        bad(f"pre-add loop iterates `{_u(loop.iter)}`")
    if not (len(loop.body) == 1 and isinstance(loop.body[0], ast.Try)):
        bad("pre-add loop body is not one try statement")
    tr = loop.body[0]
    if tr.orelse or tr.finalbody or len(tr.body) != 1 or len(tr.handlers) != 1:
        bad("pre-add try has else/finally, several statements or several handlers")
    c5 = check_call(tr.body[0], "pre-add check")
    h = tr.handlers[0]
    if not (len(h.body) == 1 and isinstance(h.body[0], ast.Pass)):
        bad("pre-add handler body is not `pass`")
    e5 = exc_types(h.type, "pre-add check")

    # s6: the copies
    s = body[6]
    if not (isinstance(s, ast.Assign) and _u(s.targets[0]) == "transferred" and isinstance(s.value, ast.Call)
            and _u(s.value.func) == "super().add" and [_u(x) for x in s.value.args] == ["paths", "fs", "oids"]):
        bad(f"statement 6 is not `transferred = super().add(paths, fs, oids, ...)`: `{_u(s)}`")
    kws = {k.arg: k.value for k in s.value.keywords}
    if set(kws) != {"hardlink", "callback", "check_exists", "on_error", None}:
        bad(f"keywords of super().add are {sorted(str(k) for k in kws)}")
    if _u(kws[None]) != "kwargs" or _u(kws["callback"]) != "callback":
        bad("super().add no longer forwards **kwargs / callback")

    def passed(name, param):
        v = kws[name]
        if isinstance(v, ast.Constant) and isinstance(v.value, bool):
            return "true" if v.value else "false"
        if _u(v) == name:
            return param
        bad(f"super().add({name}=`{_u(v)}`) is neither the parameter nor a boolean constant")

    cp_hl = passed("hardlink", "hardlink")
    cp_ce = passed("check_exists", "check_exists")
    if _u(kws["on_error"]) == "on_error":
        cp_oe = "true"
    elif _u(kws["on_error"]) == "None":
        cp_oe = "false"
    else:
        bad(f"super().add(on_error=`{_u(kws['on_error'])}`)")

    fixed(7, "oid_cache_paths = {o: self.oid_to_path(o) for o in oids}", "the oid -> path dict")

    # s8: the post loop
    s = body[8]
    if not (isinstance(s, ast.For) and _u(s.target) == "(o, cache_path)" and _u(s.iter) == "oid_cache_paths.items()"
            and not s.orelse and len(s.body) == 1 and isinstance(s.body[0], ast.Try)):
        bad(f"statement 8 is not `for o, cache_path in oid_cache_paths.items(): try: ...`: `{_u(s)}`")
    tr = s.body[0]
    if tr.orelse or tr.finalbody:
        bad("post-add try has else/finally")
    acts = []
    for st in tr.body:
        if isinstance(st, ast.If) and not st.orelse and len(st.body) == 1:
            t = boolexp(st.test, {"verify": "verify"}, "post-add check guard")
            c = check_call(st.body[0], "post-add check")
            acts.append(f"(if {t} then [PCheck {c}] else [])")
        elif _u(st) == "self.protect(cache_path)":
            acts.append("[PProtect]")
        elif isinstance(st, ast.Expr):
            acts.append(f"[PCheck {check_call(st, 'post-add check')}]")
        else:
            bad(f"post-add try body statement `{_u(st)}`")
    hs = []
    for h in tr.handlers:
        tys = exc_types(h.type, "post-add")
        if len(h.body) == 1 and isinstance(h.body[0], ast.Pass):
            act = "HPass"
        elif len(h.body) == 1 and h.name == "exc" and _u(h.body[0]) == "if on_error is not None:\n    on_error(o, exc)":
            act = "HReport"
        else:
            bad(f"post-add handler body `{_u(h)}`")
        hs += [f"({t}, {act})" for t in tys]

    fixed(9, "self.state.save_many(((cache_path, HashInfo(name=self.hash_name, value=o), None) "
             "for o, cache_path in oid_cache_paths.items()), self.fs)", "the state transaction")
    fixed(10, "return transferred", "`return transferred`")

    b = lambda c: "true" if c.value else "false"  # noqa: E731
    o = u.out
    o.append(RUNTIME)
    o.append(f"(* {rel}: HashFileDB.DEFAULT_VERIFY; __init__: self.verify = config.get('verify', DEFAULT_VERIFY) *)\n"
             f"Definition DEFAULT_VERIFY : bool := {b(dv.value)}.\n"
             "Definition store_verify (config : option bool) : bool :=\n"
             "  match config with Some v => v | None => DEFAULT_VERIFY end.\n")
    o.append(f"(* {rel}:{f.lineno} HashFileDB.add: defaults of the signature *)\n"
             f"Definition add_default_hardlink : bool := {b(d_hl)}.\n"
             f"Definition add_default_check_exists : bool := {b(d_ce)}.\n")
    o.append(f"(* {rel}:{body[0].lineno}-{body[1].lineno} verify = kwargs.get('verify'); if verify is None: verify = self.verify *)\n"
             "Definition eff_verify (percall : option bool) (store : bool) : bool :=\n"
             "  match percall with Some v => v | None => store end.\n")
    o.append(f"(* {rel}:{body[5].lineno} the pre-add check *)\n"
             f"Definition pre_runs (verify : bool) : bool := {t5}.\n"
             f"Definition pre_over : oid_iter := {it5}.\n"
             f"Definition pre_check_hash : bool := {c5}.\n"
             f"Definition pre_swallows : list exc := [{'; '.join(e5)}].\n")
    o.append(f"(* {rel}:{body[6].lineno} super().add(paths, fs, oids, hardlink=, callback=callback, check_exists=, on_error=, **kwargs) *)\n"
             f"Definition copy_hardlink (hardlink : bool) : bool := {cp_hl}.\n"
             f"Definition copy_check_exists (check_exists : bool) : bool := {cp_ce}.\n"
             f"Definition copy_reports : bool := {cp_oe}.\n")
    o.append(f"(* {rel}:{body[8].lineno} per distinct requested oid, in first-occurrence order *)\n"
             "Definition post_over : oid_iter := OidsDistinct.\n"
             f"Definition post_body (verify : bool) : list post_act := {' ++ '.join(acts) if acts else '[]'}.\n"
             f"Definition post_handlers : list (exc * hact) := [{'; '.join(hs)}].\n"
             "Definition post_handler (e : exc) : option hact :=\n"
             "  match find (fun h => exc_eqb (fst h) e) post_handlers with Some h => Some (snd h) | None => None end.\n")
    o.append(f"(* {rel}:{body[9].lineno} ONE state.save_many over every distinct requested oid *)\n"
             "Definition save_over : oid_iter := OidsDistinct.\n"
             "Definition save_value : save_val := SaveOid.\n")
    o.append("Definition add_order : list add_stmt := [SEffVerify; SNormalise; SPre; SCopy; SPaths; SPost; SSave; SReturn].\n")

    # ---------------- add_update_tree
    g = u.find_func(t_db, "add_update_tree")
    u.note(g)
    gb = _strip(g.body)
    if [x.arg for x in g.args.args] != ["odb", "tree"]:
        bad("signature of add_update_tree changed")
    if len(gb) != 6:
        bad(f"add_update_tree has {len(gb)} statements")
    call = gb[1]
    if not (isinstance(call, ast.Expr) and isinstance(call.value, ast.Call) and _u(call.value.func) == "odb.add"
            and [_u(x) for x in call.value.args] == ["tree.path", "tree.fs", "tree.oid"]
            and [k.arg for k in call.value.keywords] == ["hardlink"]
            and isinstance(call.value.keywords[0].value, ast.Constant)
            and isinstance(call.value.keywords[0].value.value, bool)):
        bad(f"add_update_tree: not `odb.add(tree.path, tree.fs, tree.oid, hardlink=<bool>)`: `{_u(call)}`")
    want = ["assert tree.oid", None, "raw = odb.get(tree.oid)", "tree.fs = raw.fs", "tree.path = raw.path", "return tree"]
    for i, w in enumerate(want):
        if w is not None and _u(gb[i]) != w:
            bad(f"add_update_tree statement {i} is `{_u(gb[i])}`, expected `{w}`")
    o.append(f"(* {rel}:{g.lineno} add_update_tree: odb.add(tree.path, tree.fs, tree.oid, hardlink=...) - no verify, "
             "no check_exists, no on_error: the store's default verification and the signature defaults apply *)\n"
             f"Definition tree_add_hardlink : bool := {b(call.value.keywords[0].value)}.\n"
             "Definition tree_add_percall_verify : option bool := None.\n"
             "Definition tree_add_check_exists : bool := add_default_check_exists.\n")

    # ---------------- migrate.py
    t_mg, relm = u.load("hashfile/db/migrate.py")
    u.cur_rel = relm
    m = u.find_func(t_mg, "migrate")
    u.note(m)
    mb = _strip(m.body)
    if len(mb) != 2 or _u(mb[0]) != "src, dest, paths, oids = migration":
        bad(f"migrate: body changed: `{_u(m)}`")
    r = mb[1]
    if not (isinstance(r, ast.Return) and isinstance(r.value, ast.Call) and _u(r.value.func) in ("dest.add", "src.add")
            and len(r.value.args) == 3 and _u(r.value.args[0]) == "paths" and _u(r.value.args[2]) == "oids"
            and _u(r.value.args[1]) in ("src.fs", "dest.fs")
            and sorted(k.arg for k in r.value.keywords) == ["callback", "hardlink"]):
        bad(f"migrate: not `return <db>.add(paths, <db>.fs, oids, hardlink=, callback=)`: `{_u(r)}`")
    mk = {k.arg: k.value for k in r.value.keywords}
    if not (isinstance(mk["hardlink"], ast.Constant) and isinstance(mk["hardlink"].value, bool)):
        bad("migrate: hardlink is not a boolean constant")
    pm = next((n for n in t_mg.body if isinstance(n, ast.ClassDef) and n.name == "PreparedMigration"), None)
    if pm is None or [_u(s.target) for s in pm.body if isinstance(s, ast.AnnAssign)] != ["src", "dest", "paths", "oids"]:
        bad("PreparedMigration fields are not (src, dest, paths, oids)")
    u.note(pm)
    o.append(f"(* {relm}:{m.lineno} migrate *)\n"
             f"Definition migrate_into : side := {'Dest' if _u(r.value.func) == 'dest.add' else 'Src'}.\n"
             f"Definition migrate_from_fs : side := {'Src' if _u(r.value.args[1]) == 'src.fs' else 'Dest'}.\n"
             f"Definition migrate_hardlink : bool := {b(mk['hardlink'])}.\n"
             "Definition migrate_percall_verify : option bool := None.\n"
             "Definition migrate_check_exists : bool := add_default_check_exists.\n")

    ht = u.find_func(t_mg, "_hash_task")
    u.note(ht)
    hb = [s for s in _strip(ht.body) if not isinstance(s, ast.ImportFrom)]
    want = ["func = _wrap_hash_file(callback, hash_file)",
            "_meta, hash_info = func(path, fs, hash_name, **kwargs)",
            "assert hash_info.value",
            None,
            "return (path, hash_info.value)"]
    if len(hb) != len(want) or any(w is not None and _u(s) != w for s, w in zip(hb, want)):
        bad(f"_hash_task body changed: {[_u(s) for s in hb]}")
    sf = hb[3]
    if not (isinstance(sf, ast.If) and not sf.orelse and len(sf.body) == 1 and isinstance(sf.test, ast.Call)
            and _u(sf.test.func) == "path.endswith" and len(sf.test.args) == 1 and not sf.test.keywords
            and isinstance(sf.test.args[0], ast.Constant) and isinstance(sf.test.args[0].value, str)
            and isinstance(sf.body[0], ast.AugAssign) and isinstance(sf.body[0].op, ast.Add)
            and _u(sf.body[0].target) == "hash_info.value" and isinstance(sf.body[0].value, ast.Constant)
            and isinstance(sf.body[0].value.value, str)):
        bad(f"_hash_task: not `if path.endswith(<str>): hash_info.value += <str>`: `{_u(sf)}`")
    lit = lambda t: "[" + "; ".join(str(c) for c in t.encode()) + "]"  # noqa: E731
    if [x.arg for x in ht.args.args] != ["hash_name", "fs", "path", "callback"]:
        bad("_hash_task signature changed")
    o.append(f"(* {relm}:{ht.lineno} _hash_task: the new oid of a re-hashed object *)\n"
             f"Definition migrate_oid (path hashed : list N) : list N :=\n"
             f"  if ends_with path {lit(sf.test.args[0].value)} then hashed ++ {lit(sf.body[0].value.value)} else hashed.\n")

    wf = u.find_func(t_mg, "_wrap_hash_file")
    u.note(wf)
    inner = next((s for s in wf.body if isinstance(s, ast.FunctionDef)), None)
    if inner is None or "res = fn(path, *args, callback=child, **kw)" not in _u(inner) or "return res" not in _u(inner):
        bad("_wrap_hash_file no longer returns fn(path, *args, callback=child, **kw)")

    p = u.find_func(t_mg, "prepare")
    u.note(p)
    pb = _strip(p.body)
    if _u(pb[0]) != "src_paths = [src.oid_to_path(oid) for oid in src._list_oids()]":
        bad(f"prepare: listing changed: `{_u(pb[0])}`")
    txt = _u(p)
    for need in ("func = partial(_hash_task, dest.hash_name, src.fs, state=dest.state, callback=callback)",
                 "results = list(executor.imap_unordered(func, src_paths))",
                 "paths, oids = zip(*results)",
                 "return PreparedMigration(src, dest, list(paths), list(oids))"):
        if need not in txt:
            bad(f"prepare: `{need}` not found")
    o.append(f"(* {relm}:{p.lineno} prepare: every listed oid of src, re-hashed with dest's algorithm from src's fs, "
             "hash cache = dest's state *)\n"
             "Definition prepare_lists : side := Src.\n"
             "Definition prepare_hash_name : side := Dest.\n"
             "Definition prepare_reads_fs : side := Src.\n"
             "Definition prepare_state : side := Dest.\n")
    return u
