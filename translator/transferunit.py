"""Translator unit "transfer" (properties C04, C11): hashfile/transfer.py `_do_transfer`, `_add`
(with its `_error` callback) and `transfer`, and hashfile/status.py `compare_status`
-> coq/theories/Gen/TransferGen.v.

These functions are loops over mutable sets with library calls - outside the statement subset of
units.FuncTr - and are hand-modelled in Model/Transfer.v.  This unit ties the DECISIONS of that
model to the source: it walks the function bodies statement by statement (fail-closed: a statement
that is not one of the shapes below raises Unsupported = a broken translation obligation) and
*symbolically executes* the set algebra, so that what is emitted flows from the source text:

  _do_transfer
    * the split loop: which set an id with `hash_info.isdir` goes to              -> g_split_dirs/files
    * find_tree_by_obj_id([...], dir_hash): the order of the stores tried          -> g_find_order
    * the body of the directory loop, executed symbolically over
        files (file_ids), entries (entry_ids), failed (failed_ids), missing (missing_ids), D:
        `x = a & b`, `x -= e`, `x.update(e)`, `x.add(e)`, `.intersection(..)`, `_add(src, dest, e, **kwargs)`
        (an upload batch: an event block + the set of its failures), the if / elif / else chain
        on set truthiness, `succeeded_dir_objs.append(dir_obj)`                     -> g_dir_step
    * "insert the rest", the `if failed_ids:` exit with `src_index.clear()`, the index update
      loop over succeeded_dir_objs (every name in it must be bound by that loop - no leaked
      variable of the directory loop), `return set()`                               -> g_finish
  _add._error: the exemption test as a boolean function of its atoms               -> g_error_counts
  _add: the rest of the body by exact shape (on_error=_error, **kwargs forwarded)
  transfer: the order of the phases (status, validate_status, early return, _do_transfer), the
    keyword arguments of compare_status and _do_transfer, the returned pair          -> g_phases, g_result, ...
  compare_status: cache_odb default, which status call gets which index / cache_odb, **kwargs
    (shallow) forwarded to BOTH calls, the src-status shortcut, the four result sets  -> g_cmp, ...

Conventions of the symbolic execution (sets are lists in the model, compared by membership):
  a & b, a.intersection(b) -> inter a b ;  a - b, a -= b -> diff a b ;  a | b -> a ++ b ;
  s.update(e) -> s ++ e ;  s.add(x) -> x :: s ;  truthiness of a set -> nonempty.
Proofs/TransferGenTie.v proves that the generated functions agree with Model/Transfer.v
(dir_step, do_transfer's tail, the result, compare_status' sets); an edit of the source that
changes a decision changes the generated text and breaks those lemmas; an edit outside the
shapes fails the translation.
"""

from __future__ import annotations

import ast

RUNTIME = '''(* ---- runtime of this unit (fixed text) ------------------------------------------------------ *)
Definition nonempty (l : list oid) : bool := match l with [] => false | _ :: _ => true end.
Inductive which_store := WCache | WSrc.
Inductive phase := PStatus | PValidate | PEarlyReturn | PDoTransfer.
Inductive status_field := SNew | SMissing | SOk | SDeleted.
'''


def _u(node):
    return ast.unparse(node)


def _is_log(s):
    """logger.debug(...) statements and docstrings carry no decision"""
    if isinstance(s, ast.Expr) and isinstance(s.value, ast.Constant):
        return True
    return (isinstance(s, ast.Expr) and isinstance(s.value, ast.Call)
            and _u(s.value.func) in ("logger.debug", "logger.info", "logger.warning"))


def _strip(stmts):
    return [s for s in stmts if not _is_log(s)]


class Sym:
    """symbolic state of the set variables"""

    def __init__(self, U, where, env, atoms=None):
        self.U = U
        self.where = where
        self.env = dict(env)          # python name -> Gallina expression (a list oid)
        self.atoms = dict(atoms or {})  # source text -> Gallina expression (opaque atoms)
        self.ev = []                  # event blocks so far (Gallina expressions of type list E)
        self.succ = "false"

    def copy(self):
        s = Sym(self.U, self.where, self.env, self.atoms)
        s.ev = list(self.ev)
        s.succ = self.succ
        return s

    def bad(self, msg):
        raise self.U.Unsupported(f"{self.where}: {msg}")

    def is_add_call(self, node):
        return isinstance(node, ast.Call) and _u(node.func) == "_add"

    def add_call(self, node):
        """_add(src, dest, <ids>, **kwargs): an upload batch; returns the set of its failures"""
        if not (len(node.args) == 3 and _u(node.args[0]) == "src" and _u(node.args[1]) == "dest"
                and len(node.keywords) == 1 and node.keywords[0].arg is None
                and _u(node.keywords[0].value) == "kwargs"):
            self.bad(f"upload call is not `_add(src, dest, <ids>, **kwargs)`: `{_u(node)}`")
        ids = self.sx(node.args[2])
        self.ev.append(f"add_events {ids}")
        return f"(add_failed {ids})"

    def sx(self, node):
        """set expression -> Gallina"""
        t = _u(node)
        if t in self.atoms:
            return self.atoms[t]
        if isinstance(node, ast.Name):
            if node.id not in self.env:
                self.bad(f"unknown set variable `{node.id}`")
            return self.env[node.id]
        if isinstance(node, ast.BinOp):
            a, b = self.sx(node.left), self.sx(node.right)
            if isinstance(node.op, ast.BitAnd):
                return f"(inter {a} {b})"
            if isinstance(node.op, ast.Sub):
                return f"(diff {a} {b})"
            if isinstance(node.op, ast.BitOr):
                return f"({a} ++ {b})"
            self.bad(f"unsupported set operator in `{t}`")
        if isinstance(node, ast.Call) and isinstance(node.func, ast.Attribute) \
                and node.func.attr == "intersection" and len(node.args) == 1 and not node.keywords:
            return f"(inter {self.sx(node.func.value)} {self.sx(node.args[0])})"
        if isinstance(node, ast.List) and len(node.elts) == 1:
            return f"[{self.elem(node.elts[0])}]"
        if self.is_add_call(node):
            return self.add_call(node)
        if isinstance(node, ast.Call) and t == "set()":
            return "[]"
        self.bad(f"unsupported set expression `{t}`")

    def elem(self, node):
        t = _u(node)
        if t in self.atoms:
            return self.atoms[t]
        self.bad(f"unsupported element `{t}`")

    def truth(self, node):
        """truthiness of a set-valued test"""
        return f"nonempty {self.sx(node)}"

    def stmt(self, s):
        """one straight-line statement"""
        if _is_log(s):
            return
        if isinstance(s, ast.Assign) and len(s.targets) == 1 and isinstance(s.targets[0], ast.Name):
            self.env[s.targets[0].id] = self.sx(s.value)
            return
        if isinstance(s, ast.AugAssign) and isinstance(s.target, ast.Name) and isinstance(s.op, ast.Sub):
            self.env[s.target.id] = f"(diff {self.sx(s.target)} {self.sx(s.value)})"
            return
        if isinstance(s, ast.Expr) and isinstance(s.value, ast.Call) and isinstance(s.value.func, ast.Attribute) \
                and isinstance(s.value.func.value, ast.Name) and len(s.value.args) == 1 and not s.value.keywords:
            var, meth, arg = s.value.func.value.id, s.value.func.attr, s.value.args[0]
            if meth == "update" and var in self.env:
                e = self.sx(arg)
                self.env[var] = f"({self.env[var]} ++ {e})"
                return
            if meth == "add" and var in self.env:
                self.env[var] = f"({self.elem(arg)} :: {self.env[var]})"
                return
            if meth == "append" and var == "succeeded_dir_objs" and _u(arg) == "dir_obj":
                self.succ = "true"
                return
        self.bad(f"unsupported statement `{_u(s)}`")


def _dir_loop_body(U, loop):
    """the body of `for dir_hash in dir_ids:` -> Gallina expression of g_dir_step"""
    where = "_do_transfer: directory loop"
    body = _strip(loop.body)
    if len(body) < 4:
        raise U.Unsupported(f"{where}: too short")
    # the tree
    find = body[0]
    if not (isinstance(find, ast.Assign) and _u(find.targets[0]) == "dir_obj" and isinstance(find.value, ast.Call)
            and _u(find.value.func) == "find_tree_by_obj_id" and len(find.value.args) == 2
            and isinstance(find.value.args[0], ast.List) and _u(find.value.args[1]) == "dir_hash"
            and not find.value.keywords):
        raise U.Unsupported(f"{where}: first statement is not `dir_obj = find_tree_by_obj_id([...], dir_hash)`: `{_u(find)}`")
    order = []
    for e in find.value.args[0].elts:
        if _u(e) == "cache_odb":
            order.append("WCache")
        elif _u(e) == "src":
            order.append("WSrc")
        else:
            raise U.Unsupported(f"{where}: unknown store `{_u(e)}` in find_tree_by_obj_id")
    if _u(body[1]) != "assert dir_obj":
        raise U.Unsupported(f"{where}: second statement is not `assert dir_obj`: `{_u(body[1])}`")
    if _u(body[2]) != "entry_ids = {oid for _, _, oid in dir_obj}":
        raise U.Unsupported(f"{where}: entry_ids is not `{{oid for _, _, oid in dir_obj}}`: `{_u(body[2])}`")
    st = Sym(U, where,
             {"file_ids": "files", "failed_ids": "failed", "missing_ids": "missing", "entry_ids": "entries"},
             {"dir_obj.hash_info": "D"})

    def leaf(s):
        ev = " ++ ".join(s.ev) if s.ev else "[]"
        return f"({ev}, {s.env['file_ids']}, {s.env['failed_ids']}, {s.succ})"

    def run(stmts, s, depth):
        pad = "  " * depth
        for k, x in enumerate(stmts):
            if isinstance(x, ast.If):
                if k != len(stmts) - 1:
                    raise U.Unsupported(f"{where}: statements after the if-chain: `{_u(stmts[k + 1])}`")
                test = s.truth(x.test)          # may append an upload batch (elif _add(...))
                s_then, s_else = s.copy(), s.copy()
                a = run(_strip(x.body), s_then, depth + 1)
                b = run(_strip(x.orelse), s_else, depth + 1) if x.orelse else leaf(s_else)
                return f"if {test}\n{pad}  then {a}\n{pad}  else {b}"
            s.stmt(x)
        return leaf(s)

    return order, run(body[3:], st, 2)


def _index_loop(U, node):
    """`if dest_index: for dir_obj in succeeded_dir_objs: ... dest_index.update([...], file_hashes)`"""
    where = "_do_transfer: index update"
    if not (isinstance(node, ast.If) and _u(node.test) == "dest_index" and not node.orelse and len(node.body) == 1
            and isinstance(node.body[0], ast.For)):
        raise U.Unsupported(f"{where}: not `if dest_index: for ... in succeeded_dir_objs:`")
    loop = node.body[0]
    if not (isinstance(loop.target, ast.Name) and _u(loop.iter) == "succeeded_dir_objs" and not loop.orelse):
        raise U.Unsupported(f"{where}: the loop is not over succeeded_dir_objs")
    var = loop.target.id
    bound = {var, "dest_index", "logger", "len"}
    stmts = [s for s in loop.body if not _is_log(s) and not isinstance(s, ast.Assert)]
    asserts = [s for s in loop.body if isinstance(s, ast.Assert)]
    for s in asserts + [x for x in loop.body if _is_log(x)]:
        for n in ast.walk(s):
            if isinstance(n, ast.Name) and n.id not in bound | {"file_hashes"}:
                raise U.Unsupported(f"{where}: `{n.id}` is not bound by the index loop (leaked variable?)")
    want = [f"file_hashes = {{oid.value for _, _, oid in {var}}}",
            f"dest_index.update([{var}.hash_info.value], file_hashes)"]
    if [_u(s) for s in stmts] != want:
        raise U.Unsupported(f"{where}: body is {[_u(s) for s in stmts]}, expected {want}")
    return var


def _do_transfer(U, f, out):
    where = "_do_transfer"
    names = [a.arg for a in f.args.args]
    if names != ["src", "dest", "obj_ids", "missing_ids", "src_index", "dest_index", "cache_odb"] or f.args.kwarg is None:
        raise U.Unsupported(f"{where}: signature {names}")
    body = _strip(f.body)
    if [_u(s) for s in body[:1]] != ["dir_ids, file_ids = (set(), set())"] and \
            [_u(s) for s in body[:1]] != ["(dir_ids, file_ids) = (set(), set())"]:
        raise U.Unsupported(f"{where}: first statement is not `dir_ids, file_ids = set(), set()`: `{_u(body[0])}`")
    split = body[1]
    if not (isinstance(split, ast.For) and _u(split.target) == "hash_info" and _u(split.iter) == "obj_ids"
            and len(split.body) == 1 and isinstance(split.body[0], ast.If) and _u(split.body[0].test) == "hash_info.isdir"
            and len(split.body[0].body) == 1 and len(split.body[0].orelse) == 1):
        raise U.Unsupported(f"{where}: the split loop is not `for hash_info in obj_ids: if hash_info.isdir: .. else: ..`")
    then_, else_ = _u(split.body[0].body[0]), _u(split.body[0].orelse[0])
    targets = {"dir_ids.add(hash_info)": "dirs", "file_ids.add(hash_info)": "files"}
    if then_ not in targets or else_ not in targets or then_ == else_:
        raise U.Unsupported(f"{where}: split branches `{then_}` / `{else_}`")
    dir_pred = "isdir o" if targets[then_] == "dirs" else "negb (isdir o)"
    file_pred = "negb (isdir o)" if targets[then_] == "dirs" else "isdir o"
    if not (isinstance(body[2], ast.AnnAssign) and _u(body[2].target) == "failed_ids" and _u(body[2].value) == "set()"):
        raise U.Unsupported(f"{where}: `failed_ids: set[HashInfo] = set()` expected, got `{_u(body[2])}`")
    if _u(body[3]) != "succeeded_dir_objs = []":
        raise U.Unsupported(f"{where}: `succeeded_dir_objs = []` expected, got `{_u(body[3])}`")
    loop = body[4]
    if not (isinstance(loop, ast.For) and _u(loop.target) == "dir_hash" and _u(loop.iter) == "dir_ids" and not loop.orelse):
        raise U.Unsupported(f"{where}: the directory loop is not `for dir_hash in dir_ids:`")
    order, step = _dir_loop_body(U, loop)
    # ---- after the loop
    st = Sym(U, "_do_transfer: after the loop", {"file_ids": "files", "failed_ids": "failed"})
    rest = body[5:]
    if len(rest) != 4:
        raise U.Unsupported(f"{where}: {len(rest)} statements after the directory loop, expected 4 "
                            f"(insert the rest; exit on failure; index update; return set())")
    st.stmt(rest[0])                    # failed_ids.update(_add(src, dest, file_ids, **kwargs))
    if len(st.ev) != 1:
        raise U.Unsupported(f"{where}: 'insert the rest' is not a single upload batch: `{_u(rest[0])}`")
    ex = rest[1]
    if not (isinstance(ex, ast.If) and not ex.orelse and len(ex.body) == 2
            and _u(ex.body[0]) == "if src_index:\n    src_index.clear()" and _u(ex.body[1]) == "return failed_ids"):
        raise U.Unsupported(f"{where}: the failure exit is not `if failed_ids: if src_index: src_index.clear(); return failed_ids`: `{_u(ex)}`")
    exit_test = st.truth(ex.test)
    _index_loop(U, rest[2])
    if _u(rest[3]) != "return set()":
        raise U.Unsupported(f"{where}: last statement is not `return set()`: `{_u(rest[3])}`")
    out.append("(* ---- _do_transfer ---- *)")
    out.append("(* the split of obj_ids *)")
    out.append(f"Definition g_split_dirs (isdir : oid -> bool) (new : list oid) : list oid := filter (fun o => {dir_pred}) new.")
    out.append(f"Definition g_split_files (isdir : oid -> bool) (new : list oid) : list oid := filter (fun o => {file_pred}) new.")
    out.append("(* find_tree_by_obj_id: the stores tried, in order *)")
    out.append(f"Definition g_find_order : list which_store := [{'; '.join(order)}].")
    out.append("(* one iteration of the directory loop (symbolic execution of its body): events, file_ids,")
    out.append("   failed_ids afterwards, and whether the directory was appended to succeeded_dir_objs *)")
    out.append("Definition g_dir_step {E : Type} (add_events : list oid -> list E) (add_failed : list oid -> list oid)")
    out.append("    (missing : list oid) (D : oid) (entries files failed : list oid) : list E * list oid * list oid * bool :=")
    out.append(f"    {step}.")
    out.append("(* after the loop: insert the rest; on failure clear the source index and return the failures;")
    out.append("   otherwise index every succeeded directory (by its own hash_info and files) and return the empty set *)")
    out.append("Definition g_finish {E : Type} (add_events : list oid -> list E) (add_failed : list oid -> list oid)")
    out.append("    (src_index_clear : list E) (index_updates : list (oid * list oid) -> list E)")
    out.append("    (evs : list E) (files failed : list oid) (succ : list (oid * list oid)) : list E * list oid :=")
    out.append(f"  let evs := evs ++ {st.ev[0]} in")
    out.append(f"  let failed := {st.env['failed_ids']} in")
    out.append(f"  if {exit_test.replace(st.env['failed_ids'], 'failed')} then (evs ++ src_index_clear, failed) else (evs ++ index_updates succ, []).")
    out.append("")


def _bool_atoms(U, node, atoms, where):
    t = _u(node)
    if t in atoms:
        return atoms[t]
    if isinstance(node, ast.BoolOp):
        op = " && " if isinstance(node.op, ast.And) else " || "
        return "(" + op.join(_bool_atoms(U, v, atoms, where) for v in node.values) + ")"
    if isinstance(node, ast.UnaryOp) and isinstance(node.op, ast.Not):
        return f"(negb {_bool_atoms(U, node.operand, atoms, where)})"
    raise U.Unsupported(f"{where}: unknown condition `{t}`")


def _add(U, f, out):
    where = "_add"
    names = [a.arg for a in f.args.args]
    if names != ["src", "dest", "hash_infos"] or f.args.kwarg is None or f.args.kwarg.arg != "kwargs":
        raise U.Unsupported(f"{where}: signature {names}")
    body = _strip(f.body)
    if len(body) != 7:
        raise U.Unsupported(f"{where}: {len(body)} statements, expected 7")
    if not (isinstance(body[0], ast.AnnAssign) and _u(body[0].target) == "failed" and _u(body[0].value) == "set()"):
        raise U.Unsupported(f"{where}: `failed: set[HashInfo] = set()` expected")
    if _u(body[1]) != "if not hash_infos:\n    return failed":
        raise U.Unsupported(f"{where}: `if not hash_infos: return failed` expected, got `{_u(body[1])}`")
    err = body[2]
    if not (isinstance(err, ast.FunctionDef) and err.name == "_error" and [a.arg for a in err.args.args] == ["oid", "exc"]):
        raise U.Unsupported(f"{where}: `def _error(oid, exc)` expected")
    eb = _strip(err.body)
    atoms = {"isinstance(exc, PermissionError)": "is_permission_error",
             "dest.is_protected(dest.oid_to_path(oid))": "dest_protected"}
    tail = ["_log_exception(oid, exc)", "failed.add(HashInfo(src.hash_name, oid))"]
    if len(eb) == 3 and isinstance(eb[0], ast.If) and not eb[0].orelse \
            and [_u(s) for s in _strip(eb[0].body)] == ["return"] and [_u(s) for s in eb[1:]] == tail:
        exempt = _bool_atoms(U, eb[0].test, atoms, "_add._error")
    elif [_u(s) for s in eb] == tail:
        exempt = "false"
    else:
        raise U.Unsupported(f"{where}._error: body is {[_u(s) for s in eb]}; expected an optional `if <exemption>: return` "
                            f"followed by {tail}")
    want = ["fs_map: dict[FileSystem, list[tuple[str, str]]] = defaultdict(list)",
            "for hash_info in hash_infos:\n    assert hash_info.value\n    obj = src.get(hash_info.value)\n"
            "    fs_map[obj.fs].append((obj.path, obj.oid))",
            "for fs, args in fs_map.items():\n    paths, oids = zip(*args)\n"
            "    dest.add(list(paths), fs, list(oids), on_error=_error, **kwargs)",
            "return failed"]
    got = [_u(s) for s in body[3:]]
    norm = lambda s: s.replace("(paths, oids) =", "paths, oids =").replace("(fs, args)", "fs, args")  # noqa: E731
    if [norm(g) for g in got] != want:
        for g, w in zip(got, want):
            if norm(g) != w:
                raise U.Unsupported(f"{where}: statement `{g}` is not `{w}`")
        raise U.Unsupported(f"{where}: body shape")
    out.append("(* ---- _add._error: does this upload error count as a failure? ---- *)")
    out.append("Definition g_error_counts (is_permission_error dest_protected : bool) : bool :=")
    out.append(f"  negb {exempt}.")
    out.append("")


def _kw(call):
    return {k.arg: _u(k.value) for k in call.keywords}


def _transfer(U, f, out):
    where = "transfer"
    body = _strip(f.body)
    body = [s for s in body if not (isinstance(s, ast.ImportFrom))]
    phases = []
    result = None
    dt_args = None
    cs_kw = None
    for s in body:
        t = _u(s)
        if t == "if src == dest:\n    return TransferResult(set(), set())":
            if phases:
                raise U.Unsupported(f"{where}: the src == dest shortcut is not first")
            continue
        if isinstance(s, ast.Assign) and _u(s.targets[0]) == "status" and isinstance(s.value, ast.Call) \
                and _u(s.value.func) == "compare_status":
            if [_u(a) for a in s.value.args] != ["src", "dest", "obj_ids"]:
                raise U.Unsupported(f"{where}: compare_status positional arguments {[_u(a) for a in s.value.args]}")
            cs_kw = _kw(s.value)
            phases.append("PStatus")
            continue
        if t == "if validate_status:\n    validate_status(status)":
            phases.append("PValidate")
            continue
        if t == "if not status.new:\n    return TransferResult(set(), set())":
            phases.append("PEarlyReturn")
            continue
        if t in ("callback.set_size(len(status.new))", "jobs = jobs or dest.fs.jobs"):
            continue
        if isinstance(s, ast.Assign) and _u(s.targets[0]) == "failed" and isinstance(s.value, ast.Call) \
                and _u(s.value.func) == "_do_transfer":
            dt_args = ([_u(a) for a in s.value.args], _kw(s.value))
            phases.append("PDoTransfer")
            continue
        if isinstance(s, ast.Return) and isinstance(s.value, ast.Call) and _u(s.value.func) == "TransferResult" \
                and len(s.value.args) == 2 and s is body[-1]:
            st = Sym(U, where, {"failed": "failed"}, {"status.new": "new"})
            result = (st.sx(s.value.args[0]), st.sx(s.value.args[1]))
            continue
        raise U.Unsupported(f"{where}: unexpected statement `{t}`")
    if result is None or dt_args is None or cs_kw is None:
        raise U.Unsupported(f"{where}: compare_status / _do_transfer / the final return not found")
    want_cs = {"check_deleted": "False", "jobs": "jobs", "src_index": "src_index", "dest_index": "dest_index",
               "cache_odb": "cache_odb", "shallow": "shallow"}
    if cs_kw != want_cs:
        raise U.Unsupported(f"{where}: compare_status keywords {cs_kw}, expected {want_cs}")
    args, kw = dt_args
    fld = {"status.new": "SNew", "status.missing": "SMissing", "status.ok": "SOk", "status.deleted": "SDeleted"}
    if args[:2] != ["src", "dest"] or len(args) != 4 or args[2] not in fld or args[3] not in fld:
        raise U.Unsupported(f"{where}: _do_transfer positional arguments {args}")
    want_kw = {"verify": "verify", "hardlink": "hardlink", "callback": "callback", "batch_size": "jobs",
               "check_exists": "False", "src_index": "src_index", "dest_index": "dest_index", "cache_odb": "cache_odb"}
    if kw != want_kw:
        raise U.Unsupported(f"{where}: _do_transfer keywords {kw}, expected {want_kw}")
    out.append("(* ---- transfer ---- *)")
    out.append(f"Definition g_phases : list phase := [{'; '.join(phases)}].")
    out.append(f"Definition g_do_transfer_args : status_field * status_field := ({fld[args[2]]}, {fld[args[3]]}).")
    out.append("Definition g_result (new failed : list oid) : list oid * list oid :=")
    out.append(f"  ({result[0]}, {result[1]}).")
    out.append("")


def _compare_status(U, f, out):
    where = "compare_status"
    body = _strip(f.body)
    if f.args.kwarg is None or f.args.kwarg.arg != "kwargs":
        raise U.Unsupported(f"{where}: no **kwargs (shallow is forwarded through it)")
    want0 = "if cache_odb is None:\n    cache_odb = src"
    if _u(body[0]) != want0:
        raise U.Unsupported(f"{where}: first statement is not `{want0}`")
    d = body[1]
    ok = (isinstance(d, ast.Assign) and _u(d.targets[0]) in ("(dest_exists, dest_missing)", "dest_exists, dest_missing")
          and isinstance(d.value, ast.Call) and _u(d.value.func) == "status"
          and [_u(a) for a in d.value.args] == ["dest", "obj_ids"]
          and _kw(d.value) == {"index": "dest_index", "jobs": "jobs", "cache_odb": "cache_odb", None: "kwargs"})
    if not ok:
        raise U.Unsupported(f"{where}: destination status call `{_u(d)}`")
    br = body[2]
    if not (isinstance(br, ast.If) and len(br.body) == 1 and len(br.orelse) == 2):
        raise U.Unsupported(f"{where}: the source-status branch has an unexpected shape")
    test = _bool_atoms(U, br.test, {"dest_missing": "nonempty dmiss", "check_deleted": "check_deleted"}, where)
    s = br.body[0]
    ok = (isinstance(s, ast.Assign) and _u(s.targets[0]) in ("(src_exists, src_missing)", "src_exists, src_missing")
          and isinstance(s.value, ast.Call) and _u(s.value.func) == "status"
          and [_u(a) for a in s.value.args] == ["src", "obj_ids"]
          and _kw(s.value) == {"index": "src_index", "jobs": "jobs", None: "kwargs"})
    if not ok:
        raise U.Unsupported(f"{where}: source status call `{_u(s)}`")
    if [_u(x) for x in br.orelse] != ["src_exists = dest_exists", "src_missing = set()"]:
        raise U.Unsupported(f"{where}: shortcut branch {[_u(x) for x in br.orelse]}")
    ret = body[3]
    if not (isinstance(ret, ast.Return) and isinstance(ret.value, ast.Call) and _u(ret.value.func) == "CompareStatusResult"
            and len(ret.value.args) == 4 and len(body) == 4):
        raise U.Unsupported(f"{where}: the return is not CompareStatusResult(ok, missing, new, deleted)")
    st = Sym(U, where, {"src_exists": "sex", "src_missing": "smiss", "dest_exists": "dex", "dest_missing": "dmiss"})
    sets = [st.sx(a) for a in ret.value.args]
    out.append("(* ---- status.compare_status ---- *)")
    out.append("(* is the source asked at all? *)")
    out.append("Definition g_ask_source (check_deleted : bool) (dmiss : list oid) : bool :=")
    out.append(f"  {test}.")
    out.append("Definition g_cmp (sex smiss dex dmiss : list oid) : cmp :=")
    out.append(f"  {{| c_ok := {sets[0]}; c_missing := {sets[1]}; c_new := {sets[2]}; c_deleted := {sets[3]} |}}.")
    out.append("")


def unit_transfer(u):
    import units as U

    tree, rel = u.load("hashfile/transfer.py")
    u.cur_rel = rel
    fs = {name: u.find_func(tree, name) for name in ("_do_transfer", "_add", "transfer", "find_tree_by_obj_id")}
    for f in fs.values():
        u.note(f)
    stree, _ = u.load("hashfile/status.py")
    cs = u.find_func(stree, "compare_status")
    u.note(cs)
    u.out.append(RUNTIME)
    _do_transfer(U, fs["_do_transfer"], u.out)
    _add(U, fs["_add"], u.out)
    _transfer(U, fs["transfer"], u.out)
    _compare_status(U, cs, u.out)
