"""Translator unit "idxcompare" (property C09): index/checkout.py `_compare` -> coq/theories/Gen/IdxCompare.v

What flows from the source into the Gallina text
  * the three helper closures `_add_file_create`, `_add_create`, `_add_delete` (which list an entry goes to,
    in which order, under which test on entry.meta) -> `gen_add_file_create`, `gen_add_create`, `gen_add_delete`;
  * the body of `for change in idiff(...)`: the if/elif chain on change.typ, the `delete` guard, the ed61977
    guard (old directory that is still an implicit node of new), the UNCHANGED/relink branch with its assert,
    the MODIFY sub-cases, every `continue`, the final `raise AssertionError` ->
        compare_branch typ old new delete relink new_has_node : option (list action)
    the plan actions appended during one iteration, in source order; None = the iteration raises
    (AssertionError, or an attribute read on a change side that is None).
What is only CHECKED (exact shape, fail closed) because the hand-written model relies on it:
  * `ret = Diff(old=old, new=new)`, the `meta_cmp_key` closure (isdir, isexec) and its `setdefault`, the call
    `idiff(old, new, with_unchanged=relink, callback=callback, **kwargs)`, `ret.changes[change.key] = change`
    as the last statement of the loop body, `return ret`, the names ADD/DELETE/MODIFY/UNCHANGED imported from
    .diff, Meta having no __bool__/__len__ (so `entry.meta and ...` tests presence).
The abstraction: the two adjacent conjuncts `new is not None and new.has_node(change.key)` are the boolean
parameter [new_has_node].

The statement language understood (anything else raises Unsupported):
    ret.<list>.append(e) | <helper>(e) | continue | return | assert t | raise AssertionError | x = expr
    | if t: .. [elif/else ..]            with expressions: names, change.typ/old/new/key, attribute reads on
    entries and metas, and/or/not, ==/!= on change types, booleans and Optional[HashInfo], `is (not) None`,
    `a if t else b`, False/True.
"""

from __future__ import annotations

import ast

LISTS = {"files_delete": "AFilesDelete", "dirs_delete": "ADirsDelete", "files_create": "AFilesCreate",
         "dirs_create": "ADirsCreate", "files_chmod": "AFilesChmod"}
HELPERS = ("_add_file_create", "_add_create", "_add_delete")
TYPS = ("ADD", "DELETE", "MODIFY", "UNCHANGED")

META_CMP_KEY = '''
def meta_cmp_key(meta):
    if meta is None:
        return meta
    return (meta.isdir, meta.isexec)
'''
IDIFF_CALL = "idiff(old, new, with_unchanged=relink, callback=callback, **kwargs)"
HAS_NODE = ("new is not None", "new.has_node(change.key)")


class Need(Exception):
    """an attribute is read on an Optional change side that is not known to be present here"""

    def __init__(self, src, code, ty):
        super().__init__(src)
        self.src, self.code, self.ty = src, code, ty


def _dump(n):
    return ast.dump(n, include_attributes=False)


def unit_idxcompare(u):  # noqa: C901, PLR0915
    import units as U

    Unsupported = U.Unsupported
    U._with_types(u)
    recs = {"ientry": u.recs["ientry"], "meta": u.recs["meta"], "hashinfo": u.recs["hashinfo"]}
    if recs["meta"].truthy is not None or recs["ientry"].truthy is not None:
        raise Unsupported("Meta / DataIndexEntry define __bool__: `entry.meta and ...` is no longer a presence test")

    tree, rel = u.load("index/checkout.py")
    u.cur_rel = rel
    f = u.find_func(tree, "_compare")
    u.note(f)

    # ---- names of the change types come from .diff
    imported = set()
    for n in tree.body:
        if isinstance(n, ast.ImportFrom) and n.module == "diff" and n.level == 1:
            imported.update(a.asname or a.name for a in n.names if a.asname in (None, a.name))
    if not set(TYPS) <= imported:
        raise Unsupported(f"change types not imported from .diff: {sorted(set(TYPS) - imported)}")

    # ---- frame of _compare
    params = [a.arg for a in f.args.args]
    if params != ["old", "new", "relink", "delete", "callback"] or f.args.kwarg is None or f.args.kwarg.arg != "kwargs" \
            or f.args.vararg or f.args.kwonlyargs:
        raise Unsupported(f"_compare parameters changed: {ast.unparse(f.args)}")
    body = [s for s in f.body if not (isinstance(s, ast.Expr) and isinstance(s.value, ast.Constant))]
    helpers = {}
    loop = None
    seen = []
    for s in body:
        if isinstance(s, ast.Assign) and ast.unparse(s) == "ret = Diff(old=old, new=new)":
            seen.append("ret")
        elif isinstance(s, ast.FunctionDef) and s.name in HELPERS:
            if loop is not None:
                raise Unsupported("helper defined after the loop")
            helpers[s.name] = s
        elif isinstance(s, ast.FunctionDef) and s.name == "meta_cmp_key":
            if _dump(s) != _dump(ast.parse(META_CMP_KEY).body[0]):
                raise Unsupported("meta_cmp_key is no longer (meta.isdir, meta.isexec) / None")
            seen.append("cmp")
        elif isinstance(s, ast.Expr) and ast.unparse(s) == "kwargs.setdefault('meta_cmp_key', meta_cmp_key)":
            seen.append("setdefault")
        elif isinstance(s, ast.For) and loop is None:
            loop = s
            seen.append("for")
        elif isinstance(s, ast.Return) and ast.unparse(s) == "return ret":
            seen.append("return")
        else:
            raise Unsupported(f"_compare: unexpected statement `{ast.unparse(s)[:70]}`")
    if seen != ["ret", "cmp", "setdefault", "for", "return"] or set(helpers) != set(HELPERS):
        raise Unsupported(f"_compare frame changed: {seen}, helpers {sorted(helpers)}")
    if ast.unparse(loop.target) != "change" or ast.unparse(loop.iter) != IDIFF_CALL or loop.orelse:
        raise Unsupported(f"loop header changed: for {ast.unparse(loop.target)} in {ast.unparse(loop.iter)}")
    lbody = list(loop.body)
    if not lbody or ast.unparse(lbody[-1]) != "ret.changes[change.key] = change":
        raise Unsupported("the loop body no longer ends with ret.changes[change.key] = change")
    lbody = lbody[:-1]

    # ---- the little translator
    fresh_n = [0]

    def fresh(base):
        fresh_n[0] += 1
        return f"{base}_{fresh_n[0]}"

    def field(rec, attr):
        r = recs[rec]
        t = r.field(attr)  # raises Unsupported when the attrs class has no such field
        return r.prefix + attr, t

    def norm_ty(t):
        # types of units.py: ("opt", ("rec", "meta")) ... -> our names
        if isinstance(t, tuple) and t[0] == "opt" and isinstance(t[1], tuple) and t[1][0] == "rec":
            return ("opt", t[1][1])
        if isinstance(t, tuple) and t[0] == "rec":
            return t[1]
        return t

    def expr(n, env):
        src = ast.unparse(n)
        if src in env["narrowed"]:
            return env["narrowed"][src]
        if isinstance(n, ast.Constant) and isinstance(n.value, bool):
            return ("true" if n.value else "false"), "bool"
        if isinstance(n, ast.Name):
            if n.id in env["vars"]:
                return env["vars"][n.id]
            if n.id in TYPS:
                return f"ichange_{n.id}", "ichange"
            raise Unsupported(f"unknown name {n.id}")
        if isinstance(n, ast.Attribute):
            if src == "change.typ" and "change" in env["vars"]:
                return "typ", "ichange"
            if src in ("change.old", "change.new") and "change" in env["vars"]:
                return src.split(".")[1], ("opt", "ientry")
            base, bt = expr(n.value, env)
            if bt in ("ientry", "meta", "hashinfo"):
                fn, ft = field(bt, n.attr)
                return f"({fn} {base})", norm_ty(ft)
            if isinstance(bt, tuple) and bt[0] == "opt":
                raise Need(ast.unparse(n.value), base, bt[1])
            raise Unsupported(f"attribute {src} on {bt}")
        if isinstance(n, ast.IfExp):
            holder = []

            def br(node):
                def k(e):
                    c, t = expr(node, e)
                    holder.append(t)
                    return c
                return k
            code = cond(n.test, env, br(n.body), br(n.orelse))
            if len(set(map(str, holder))) != 1:
                raise Unsupported(f"branches of `{src}` have different types {holder}")
            return code, holder[0]
        if isinstance(n, (ast.BoolOp, ast.Compare)) or (isinstance(n, ast.UnaryOp) and isinstance(n.op, ast.Not)):
            return cond(n, env, lambda e: "true", lambda e: "false"), "bool"
        raise Unsupported(f"expression {type(n).__name__}: {src}")

    def cond(test, env, then, els):  # noqa: C901, PLR0911
        if isinstance(test, ast.BoolOp) and isinstance(test.op, ast.And):
            vals = list(test.values)
            for i in range(len(vals) - 1):  # the has_node guard as one boolean parameter
                if (ast.unparse(vals[i]), ast.unparse(vals[i + 1])) == HAS_NODE:
                    vals[i:i + 2] = [ast.Name(id="new_has_node")]
                    break
            if len(vals) == 1:
                return cond(vals[0], env, then, els)
            rest = vals[1] if len(vals) == 2 else ast.BoolOp(op=ast.And(), values=vals[1:])
            return cond(vals[0], env, lambda e: cond(rest, e, then, els), els)
        if isinstance(test, ast.BoolOp) and isinstance(test.op, ast.Or):
            vals = list(test.values)
            rest = vals[1] if len(vals) == 2 else ast.BoolOp(op=ast.Or(), values=vals[1:])
            return cond(vals[0], env, then, lambda e: cond(rest, e, then, els))
        if isinstance(test, ast.UnaryOp) and isinstance(test.op, ast.Not):
            return cond(test.operand, env, els, then)
        if isinstance(test, ast.Compare) and len(test.ops) == 1:
            op, right = test.ops[0], test.comparators[0]
            if isinstance(op, (ast.Is, ast.IsNot)) and isinstance(right, ast.Constant) and right.value is None:
                code, t = expr(test.left, env)
                if not (isinstance(t, tuple) and t[0] == "opt"):
                    raise Unsupported(f"`is None` on a non-optional: {ast.unparse(test)}")
                v = fresh("p")
                e2 = dict(env, narrowed=dict(env["narrowed"]))
                e2["narrowed"][ast.unparse(test.left)] = (v, t[1])
                some, none = (then(e2), els(env)) if isinstance(op, ast.IsNot) else (els(e2), then(env))
                return f"(match {code} with Some {v} => {some} | None => {none} end)"
            if isinstance(op, (ast.Eq, ast.NotEq)):
                a, ta = expr(test.left, env)
                b, tb = expr(right, env)
                if ta != tb:
                    raise Unsupported(f"comparison of {ta} with {tb}: {ast.unparse(test)}")
                eqb = {"ichange": "ichange_eqb", "bool": "Bool.eqb", ("opt", "hashinfo"): "(opt_eqb hashinfo_eqb)",
                       ("opt", "meta"): "(opt_eqb meta_eqb)"}.get(ta)
                if eqb is None:
                    raise Unsupported(f"== on {ta}")
                c = f"({eqb} {a} {b})"
                if isinstance(op, ast.NotEq):
                    c = f"(negb {c})"
                return f"(if {c} then {then(env)} else {els(env)})"
            raise Unsupported(f"comparison {ast.unparse(test)}")
        code, t = expr(test, env)
        if t == "bool":
            return f"(if {code} then {then(env)} else {els(env)})"
        if t == ("opt", "meta") or t == ("opt", "ientry"):  # presence (no __bool__ on these classes)
            v = fresh("s")
            e2 = dict(env, narrowed=dict(env["narrowed"]))
            e2["narrowed"][ast.unparse(test)] = (v, t[1])
            return f"(match {code} with Some {v} => {then(e2)} | None => {els(env)} end)"
        raise Unsupported(f"truthiness of {t}: {ast.unparse(test)}")

    def stmts(ss, env, loop_mode):  # noqa: C901, PLR0911, PLR0912
        """the actions appended from here to the end of the iteration / of the helper call"""
        nil = "(Some [])" if loop_mode else "[]"
        if not ss:
            return nil
        s, rest = ss[0], ss[1:]
        try:
            if isinstance(s, ast.Expr) and isinstance(s.value, ast.Constant):
                return stmts(rest, env, loop_mode)
            if isinstance(s, ast.Continue):
                if not loop_mode:
                    raise Unsupported("continue inside a helper")
                return nil
            if isinstance(s, ast.Return):
                if loop_mode or s.value is not None:
                    raise Unsupported(f"`{ast.unparse(s)}`")
                return nil
            if isinstance(s, ast.Raise):
                if not loop_mode or ast.unparse(s) != "raise AssertionError":
                    raise Unsupported(f"`{ast.unparse(s)}`")
                return "None"
            if isinstance(s, ast.Assert):
                if not loop_mode or s.msg is not None:
                    raise Unsupported(f"`{ast.unparse(s)}`")
                return cond(s.test, env, lambda e: stmts(rest, e, loop_mode), lambda e: "None")
            if isinstance(s, ast.Expr) and isinstance(s.value, ast.Call) and len(s.value.args) == 1 \
                    and not s.value.keywords:
                call = s.value
                fsrc = ast.unparse(call.func)
                a, ta = expr(call.args[0], env)
                if isinstance(ta, tuple) and ta == ("opt", "ientry"):
                    raise Need(ast.unparse(call.args[0]), a, "ientry")
                if ta != "ientry":
                    raise Unsupported(f"argument of {fsrc} has type {ta}")
                tail = stmts(rest, env, loop_mode)
                head = None
                for lst, ctor in LISTS.items():
                    if fsrc == f"ret.{lst}.append":
                        head = f"[{ctor} {a}]"
                if head is None and fsrc in HELPERS:
                    if fsrc not in env["helpers"]:
                        raise Unsupported(f"{fsrc} used before its definition")
                    head = f"(gen{fsrc} {a})"
                if head is None:
                    raise Unsupported(f"call {fsrc}(...)")
                return f"(option_map (app {head}) {tail})" if loop_mode else f"({head} ++ {tail})"
            if isinstance(s, ast.Assign) and len(s.targets) == 1 and isinstance(s.targets[0], ast.Name):
                code, t = expr(s.value, env)
                v = fresh(s.targets[0].id)
                e2 = dict(env, vars=dict(env["vars"]), narrowed=dict(env["narrowed"]))
                e2["vars"][s.targets[0].id] = (v, t)
                e2["narrowed"].pop(s.targets[0].id, None)
                return f"(let {v} := {code} in {stmts(rest, e2, loop_mode)})"
            if isinstance(s, ast.If):
                return cond(s.test, env, lambda e: stmts(list(s.body) + rest, e, loop_mode),
                            lambda e: stmts(list(s.orelse) + rest, e, loop_mode))
            raise Unsupported(f"statement {type(s).__name__}: {ast.unparse(s)[:70]}")
        except Need as nd:
            if not loop_mode or nd.src not in ("change.old", "change.new"):
                raise Unsupported(f"attribute of possibly-None {nd.src}") from None
            if nd.src in env["narrowed"]:
                raise Unsupported(f"internal: {nd.src} already narrowed") from None
            v = fresh(nd.src.split(".")[1])
            e2 = dict(env, narrowed=dict(env["narrowed"]))
            e2["narrowed"][nd.src] = (v, nd.ty)
            return f"(match {nd.code} with Some {v} => {stmts(ss, e2, loop_mode)} | None => None end)"

    out = [
        "(* the plan lists of checkout.Diff an entry can be appended to *)\n"
        "Inductive action :=\n"
        + "".join(f"| {c} (e : ientry)\n" for c in LISTS.values()).rstrip("\n") + ".\n"
    ]
    defined = []
    order = [s.name for s in body if isinstance(s, ast.FunctionDef) and s.name in HELPERS]
    for name in order:
        h = helpers[name]
        if [a.arg for a in h.args.args] != ["entry"] or h.args.vararg or h.args.kwarg or h.args.kwonlyargs:
            raise Unsupported(f"{name} parameters changed")
        env = {"vars": {"entry": ("entry", "ientry")}, "narrowed": {}, "helpers": list(defined)}
        code = stmts(list(h.body), env, False)
        out.append(f"(* {rel}:{h.lineno} _compare.{name} *)\n"
                   f"Definition gen{name} (entry : ientry) : list action :=\n  {code}.\n")
        defined.append(name)
    env = {"vars": {"change": ("change", "change"), "delete": ("delete", "bool"), "relink": ("relink", "bool"),
                    "new_has_node": ("new_has_node", "bool")},
           "narrowed": {}, "helpers": list(defined)}
    code = stmts(lbody, env, True)
    out.append(f"(* {rel}:{loop.lineno} the body of `for change in idiff(...)` in _compare: the actions of one change, in\n"
               "   source order; None = the iteration raises.  new_has_node = `new is not None and new.has_node(change.key)` *)\n"
               "Definition compare_branch (typ : ichange) (old new : option ientry) (delete relink new_has_node : bool)\n"
               f"  : option (list action) :=\n  {code}.\n")
    u.out.extend(out)
    return u
