"""Translator unit "gc" (property C06): hashfile/gc.py gc() (+ hashfile/hash_info.py HASH_DIR_SUFFIX and
HashInfo.isdir) -> coq/theories/Gen/GcDecisions.v.

gc() is outside the statement subset of units.FuncTr (set mutation in a loop, a generator argument,
a nested def, list appends, a loop over a tuple of lists), so it has its own fail-closed shape
check: after dropping the docstring and the three expected local imports the body must consist of
*exactly* the statement sequence below (compared on the unparsed AST); what flows from the source
into the Gallina text are the DECISIONS the model (Model/Gc.v) depends on:

  phase 0  `if <T0>: raise ObjectDBPermissionError(...)`        -> read_only_refused ro dry shallow := T0
  phase 1  `if not cache_odb: cache_odb = odb`                  (fixed)
  phase 2  `used_hashes = set()`
           `for hash_info in used:`
               `if <T1>: continue`                               -> used_skip name odb_hash_name cache_hash_name
                                                                     dry shallow := T1
               `used_hashes.add(hash_info.value)`                (fixed)
               `if <T2>:`                                        -> expand isdir dry shallow := T2
                   `tree = Tree.load(<S>, hash_info)`            -> tree_source := FromCache | FromOdb
                   `used_hashes.update(oid.value for _, _, oid in tree)`   (fixed)
  phase 3  `def _is_dir_hash(_hash): ... return _hash.endswith(HASH_DIR_SUFFIX)`  -> is_dir_hash
  phase 4  `num_removed = 0`, `dir_paths = []`, `file_paths = []`   (any order, fixed)
           `for hash_ in QueryingProgress(<S'>.all(jobs), name=<S'>.path):`  -> scan_source := ScanOdb | ScanCache
               `if <T3>: continue`                               -> scan_skip in_used dry shallow := T3
               `path = odb.oid_to_path(hash_)`                   (fixed)
               `if <T4>: [odb._remove_unpacked_dir(hash_)]; X.append(path)`
               `else: Y.append(path)`                            -> scan_target is_dir dry shallow := if T4 then X else Y
  phase 5  `for paths in (L1, L2):`                              -> removal_lists := [L1; L2]
               `if <T5>:`                                        -> counted nonempty dry shallow := T5
                   `num_removed += len(paths)`
                   `if <T6>: odb.fs.remove(paths)`               -> removed nonempty dry shallow := T5 && T6
  phase 6  `return num_removed`
  + the defaults of the keyword parameters shallow / dry, HASH_DIR_SUFFIX, HashInfo.isdir.

The tests T0..T6 are translated by a tiny boolean-expression translator over a fixed vocabulary of
atoms per position (anything else -> Unsupported); e.g. T1 may compare `hash_info.name` with
`odb.hash_name` or with `cache_odb.hash_name` - which one it is ends up in the Gallina text, and the
tie lemmas / theorems of Proofs/GcProofs.v hold only for the collected store's.  A local alias
(`hash_name = cache_odb.hash_name`), an extra statement, a flush inside the scan loop, a second pass
over `used` ... change the statement sequence: the unit fails closed (a broken translation obligation).

Python truthiness used: `if paths` on a list = non-empty; `if not cache_odb` on an object database
(HashFileDB / ObjectDB define neither __bool__ nor __len__: checked on dvc_data's HashFileDB class
body; ObjectDB is a dependency outside the translated tree) = `is None`.
"""

from __future__ import annotations

import ast

RUNTIME = '''(* ---- fixed text of this unit ------------------------------------------------------------------ *)
Inductive tree_src := FromCache | FromOdb.        (* first argument of Tree.load in the expansion *)
Inductive scan_src := ScanOdb | ScanCache.        (* whose .all() the scan loop walks *)
Inductive paths_list := DirPaths | FilePaths.     (* the two lists of the scan loop *)
Inductive phase := PhGuard | PhCacheDefault | PhUsed | PhIsDirHelper | PhScan | PhRemove | PhReturn.
Definition nonempty {A} (l : list A) : bool := truthy_list l.
'''


def _u(node):
    return ast.unparse(node)


class _Tr:
    """boolean expressions over a fixed vocabulary: atoms = {source text: (coq term, 'bool'|'name')}"""

    def __init__(self, U, where, atoms):
        self.U, self.where, self.atoms = U, where, atoms

    def fail(self, node, why):
        raise self.U.Unsupported(f"gc: {self.where}: {why}: `{_u(node)}`")

    def atom(self, node, ty):
        t = _u(node)
        if t in self.atoms and self.atoms[t][1] == ty:
            return self.atoms[t][0]
        self.fail(node, f"not a known {ty} atom of this position")

    def b(self, node):
        if isinstance(node, ast.BoolOp):
            op = " && " if isinstance(node.op, ast.And) else " || "
            return "(" + op.join(self.b(v) for v in node.values) + ")"
        if isinstance(node, ast.UnaryOp) and isinstance(node.op, ast.Not):
            return f"(negb {self.b(node.operand)})"
        if isinstance(node, ast.Constant) and isinstance(node.value, bool):
            return "true" if node.value else "false"
        if isinstance(node, ast.Compare) and len(node.ops) == 1:
            op = node.ops[0]
            if isinstance(op, (ast.Eq, ast.NotEq)):
                a, c = self.atom(node.left, "name"), self.atom(node.comparators[0], "name")
                e = f"(list_N_eqb {a} {c})"
                return e if isinstance(op, ast.Eq) else f"(negb {e})"
            if isinstance(op, (ast.In, ast.NotIn)):
                key = f"{_u(node.left)} in {_u(node.comparators[0])}"
                if key in self.atoms and self.atoms[key][1] == "bool":
                    e = self.atoms[key][0]
                    return e if isinstance(op, ast.In) else f"(negb {e})"
            self.fail(node, "unsupported comparison")
        return self.atom(node, "bool")


def _strip(body):
    return [s for s in body if not (isinstance(s, ast.Expr) and isinstance(s.value, ast.Constant)
                                    and isinstance(s.value.value, str))]


def _no_truth_dunder(U, tree, cname):
    cls = next((n for n in tree.body if isinstance(n, ast.ClassDef) and n.name == cname), None)
    if cls is None:
        raise U.Unsupported(f"class {cname} not found")
    for s in cls.body:
        if isinstance(s, ast.FunctionDef) and s.name in ("__bool__", "__len__"):
            raise U.Unsupported(f"{cname} defines {s.name}: `if not cache_odb` is no longer `is None`")
    return [s.name for s in cls.body if isinstance(s, ast.FunctionDef)]


def unit_gc(u):
    import units as U

    def bad(msg):
        raise U.Unsupported("gc: " + msg)

    # ---------------- hash_info.py: HASH_DIR_SUFFIX, HashInfo.isdir
    t_hi, rel_hi = u.load("hashfile/hash_info.py")
    suf = next((s for s in t_hi.body if isinstance(s, ast.Assign) and _u(s.targets[0]) == "HASH_DIR_SUFFIX"), None)
    if suf is None or not (isinstance(suf.value, ast.Constant) and isinstance(suf.value.value, str)):
        bad("HASH_DIR_SUFFIX is not a string constant")
    u.note(suf)
    suffix = suf.value.value
    isdir = u.find_func(t_hi, "HashInfo.isdir")
    u.note(isdir)
    if [_u(d) for d in isdir.decorator_list] != ["property"] or \
            [_u(s) for s in _strip(isdir.body)] != ["if not self.value:\n    return False",
                                                    "return self.value.endswith(HASH_DIR_SUFFIX)"]:
        bad(f"HashInfo.isdir is not `if not self.value: return False; return self.value.endswith(HASH_DIR_SUFFIX)`")

    # ---------------- db/__init__.py: an odb object is always true
    t_db, _ = u.load("hashfile/db/__init__.py")
    u.hash.update(repr(_no_truth_dunder(U, t_db, "HashFileDB")).encode())

    # ---------------- gc.py
    tree, rel = u.load("hashfile/gc.py")
    u.cur_rel = rel
    f = u.find_func(tree, "gc")
    u.note(f)
    a = f.args
    if [x.arg for x in a.args] != ["odb", "used", "jobs", "cache_odb", "shallow", "dry"] or a.vararg or a.kwarg \
            or a.kwonlyargs or a.posonlyargs or len(a.defaults) != 4:
        bad(f"signature is not (odb, used, jobs=, cache_odb=, shallow=, dry=): `{_u(a)}`")
    d_jobs, d_cache, d_shallow, d_dry = a.defaults
    if _u(d_jobs) != "None" or _u(d_cache) != "None":
        bad("defaults of jobs / cache_odb are not None")
    for d in (d_shallow, d_dry):
        if not (isinstance(d, ast.Constant) and isinstance(d.value, bool)):
            bad("defaults of shallow / dry are not boolean constants")
    if f.decorator_list:
        bad("gc is decorated")

    imports = {}
    body = []
    for s in _strip(f.body):
        if isinstance(s, ast.ImportFrom):
            for al in s.names:
                imports[al.asname or al.name] = ("." * s.level) + (s.module or "") + ":" + al.name
        else:
            body.append(s)
    want_imports = {"ObjectDBPermissionError": "dvc_objects.errors:ObjectDBPermissionError",
                    "QueryingProgress": "._progress:QueryingProgress", "Tree": ".tree:Tree"}
    if imports != want_imports:
        bad(f"local imports are {imports}")

    pos = [0]

    def nxt(what):
        if pos[0] >= len(body):
            bad(f"statement {pos[0]} ({what}) is missing")
        s = body[pos[0]]
        pos[0] += 1
        return s

    def fixed(text, what):
        s = nxt(what)
        if _u(s) != text:
            bad(f"statement {pos[0] - 1} is not {what}: `{_u(s)}`")
        return s

    flags = {"dry": ("dry", "bool"), "shallow": ("shallow", "bool")}
    phases = []

    # phase 0: the read-only guard
    g = nxt("the read-only guard")
    if not (isinstance(g, ast.If) and not g.orelse and len(g.body) == 1 and isinstance(g.body[0], ast.Raise)
            and isinstance(g.body[0].exc, ast.Call) and _u(g.body[0].exc.func) == "ObjectDBPermissionError"):
        bad(f"statement 0 is not `if <test>: raise ObjectDBPermissionError(...)`: `{_u(g)}`")
    t0 = _Tr(U, "read-only guard", {"odb.read_only": ("ro", "bool"), **flags}).b(g.test)
    phases.append("PhGuard")

    # phase 1: cache_odb defaults to odb
    fixed("if not cache_odb:\n    cache_odb = odb", "`if not cache_odb: cache_odb = odb`")
    phases.append("PhCacheDefault")

    # phase 2: the used set
    fixed("used_hashes = set()", "`used_hashes = set()`")
    ul = nxt("the loop over `used`")
    if not (isinstance(ul, ast.For) and _u(ul.target) == "hash_info" and _u(ul.iter) == "used" and not ul.orelse
            and len(ul.body) == 3):
        bad(f"not `for hash_info in used:` with three statements: `{_u(ul)[:200]}`")
    skip, add, exp = ul.body
    if not (isinstance(skip, ast.If) and not skip.orelse and [_u(s) for s in skip.body] == ["continue"]):
        bad(f"used loop: first statement is not `if <test>: continue`: `{_u(skip)}`")
    t1 = _Tr(U, "algorithm filter", {"hash_info.name": ("name", "name"), "odb.hash_name": ("odb_hash_name", "name"),
                                     "cache_odb.hash_name": ("cache_hash_name", "name"), **flags}).b(skip.test)
    if _u(add) != "used_hashes.add(hash_info.value)":
        bad(f"used loop: second statement is not `used_hashes.add(hash_info.value)`: `{_u(add)}`")
    if not (isinstance(exp, ast.If) and not exp.orelse and len(exp.body) == 2):
        bad(f"used loop: third statement is not `if <test>: tree = Tree.load(...); used_hashes.update(...)`: `{_u(exp)}`")
    t2 = _Tr(U, "expansion test", {"hash_info.isdir": ("isdir", "bool"), **flags}).b(exp.test)
    ld, upd = exp.body
    if not (isinstance(ld, ast.Assign) and _u(ld.targets[0]) == "tree" and isinstance(ld.value, ast.Call)
            and _u(ld.value.func) == "Tree.load" and len(ld.value.args) == 2 and not ld.value.keywords
            and _u(ld.value.args[1]) == "hash_info" and _u(ld.value.args[0]) in ("cache_odb", "odb")):
        bad(f"expansion: not `tree = Tree.load(cache_odb|odb, hash_info)`: `{_u(ld)}`")
    tree_source = "FromCache" if _u(ld.value.args[0]) == "cache_odb" else "FromOdb"
    if _u(upd) != "used_hashes.update((oid.value for _, _, oid in tree))":
        bad(f"expansion: not `used_hashes.update(oid.value for _, _, oid in tree)`: `{_u(upd)}`")
    phases.append("PhUsed")

    # phase 3: the .dir test of the scan
    h = nxt("def _is_dir_hash")
    if not (isinstance(h, ast.FunctionDef) and h.name == "_is_dir_hash" and [x.arg for x in h.args.args] == ["_hash"]
            and [_u(s) for s in h.body] == ["from .hash_info import HASH_DIR_SUFFIX",
                                            "return _hash.endswith(HASH_DIR_SUFFIX)"]):
        bad(f"not `def _is_dir_hash(_hash): return _hash.endswith(HASH_DIR_SUFFIX)`: `{_u(h)}`")
    phases.append("PhIsDirHelper")

    # phase 4: the scan
    inits = sorted(_u(nxt("an initialisation")) for _ in range(3))
    if inits != ["dir_paths = []", "file_paths = []", "num_removed = 0"]:
        bad(f"initialisations before the scan loop are {inits}")
    sl = nxt("the scan loop")
    ok = (isinstance(sl, ast.For) and _u(sl.target) == "hash_" and not sl.orelse and len(sl.body) == 3
          and isinstance(sl.iter, ast.Call) and _u(sl.iter.func) == "QueryingProgress")
    scan_source = None
    if ok:
        it = _u(sl.iter)
        for who, tag in (("odb", "ScanOdb"), ("cache_odb", "ScanCache")):
            if it == f"QueryingProgress({who}.all(jobs), name={who}.path)":
                scan_source = tag
    if scan_source is None:
        bad(f"not `for hash_ in QueryingProgress(<odb>.all(jobs), name=<odb>.path):` with three statements: "
            f"`{_u(sl)[:200]}`")
    sskip, spath, part = sl.body
    if not (isinstance(sskip, ast.If) and not sskip.orelse and [_u(s) for s in sskip.body] == ["continue"]):
        bad(f"scan loop: first statement is not `if <test>: continue`: `{_u(sskip)}`")
    t3 = _Tr(U, "used-test of the scan", {"hash_ in used_hashes": ("in_used", "bool"), **flags}).b(sskip.test)
    if _u(spath) != "path = odb.oid_to_path(hash_)":
        bad(f"scan loop: second statement is not `path = odb.oid_to_path(hash_)`: `{_u(spath)}`")
    if not (isinstance(part, ast.If) and len(part.orelse) == 1 and 1 <= len(part.body) <= 2):
        bad(f"scan loop: third statement is not the dir/file partition: `{_u(part)}`")
    t4 = _Tr(U, "partition test", {"_is_dir_hash(hash_)": ("is_dir", "bool"), **flags}).b(part.test)
    unpack = False
    if len(part.body) == 2:
        if _u(part.body[0]) != "odb._remove_unpacked_dir(hash_)":
            bad(f"partition: unexpected statement `{_u(part.body[0])}`")
        unpack = True
    lists = {"dir_paths.append(path)": "DirPaths", "file_paths.append(path)": "FilePaths"}
    tb, eb = _u(part.body[-1]), _u(part.orelse[0])
    if tb not in lists or eb not in lists or tb == eb:
        bad(f"partition: branches are `{tb}` / `{eb}`")
    phases.append("PhScan")

    # phase 5: removal
    rl = nxt("the removal loop")
    if not (isinstance(rl, ast.For) and _u(rl.target) == "paths" and not rl.orelse and isinstance(rl.iter, ast.Tuple)
            and len(rl.body) == 1):
        bad(f"not `for paths in (dir_paths, file_paths):` with one statement: `{_u(rl)[:200]}`")
    names = {"dir_paths": "DirPaths", "file_paths": "FilePaths"}
    rlists = [_u(e) for e in rl.iter.elts]
    if sorted(rlists) != ["dir_paths", "file_paths"]:
        bad(f"removal loop iterates over {rlists}")
    cnt = rl.body[0]
    if not (isinstance(cnt, ast.If) and not cnt.orelse and len(cnt.body) == 2
            and _u(cnt.body[0]) == "num_removed += len(paths)"):
        bad(f"removal loop: not `if <test>: num_removed += len(paths); if <test>: odb.fs.remove(paths)`: `{_u(cnt)}`")
    ratoms = {"paths": ("ne", "bool"), **flags}
    t5 = _Tr(U, "count test", ratoms).b(cnt.test)
    rm = cnt.body[1]
    if not (isinstance(rm, ast.If) and not rm.orelse and [_u(s) for s in rm.body] == ["odb.fs.remove(paths)"]):
        bad(f"removal loop: not `if <test>: odb.fs.remove(paths)`: `{_u(rm)}`")
    t6 = _Tr(U, "removal test", ratoms).b(rm.test)
    phases.append("PhRemove")

    fixed("return num_removed", "`return num_removed`")
    phases.append("PhReturn")
    if pos[0] != len(body):
        bad(f"statements after the return: `{_u(body[pos[0]])}`")

    # ---------------- emission
    o = u.out
    o.append(RUNTIME)
    o.append(f"(* {rel_hi}:{suf.lineno} HASH_DIR_SUFFIX = {suffix!r} *)\n"
             f"Definition dir_suffix : list N := [{'; '.join(str(ord(c)) for c in suffix)}].\n"
             f"(* {rel_hi}:{isdir.lineno} HashInfo.isdir: if not self.value: return False; "
             "return self.value.endswith(HASH_DIR_SUFFIX) *)\n"
             "Definition hashinfo_isdir (value : list N) : bool :=\n"
             "  if negb (truthy_list value) then false else ends_with value dir_suffix.\n"
             f"(* {rel}:{h.lineno} _is_dir_hash(_hash): _hash.endswith(HASH_DIR_SUFFIX) *)\n"
             "Definition is_dir_hash (h : list N) : bool := ends_with h dir_suffix.\n")
    o.append(f"(* {rel}:{f.lineno} def gc(odb, used, jobs=None, cache_odb=None, shallow={_u(d_shallow)}, dry={_u(d_dry)}) *)\n"
             f"Definition default_shallow : bool := {'true' if d_shallow.value else 'false'}.\n"
             f"Definition default_dry : bool := {'true' if d_dry.value else 'false'}.\n")
    o.append(f"(* {rel}:{g.lineno} `if {_u(g.test)}: raise ObjectDBPermissionError` - the first statement *)\n"
             f"Definition read_only_refused (ro dry shallow : bool) : bool := {t0}.\n")
    o.append(f"(* {rel}:{skip.lineno} used loop: `if {_u(skip.test)}: continue` *)\n"
             "Definition used_skip (name odb_hash_name cache_hash_name : list N) (dry shallow : bool) : bool :=\n"
             f"  {t1}.\n"
             f"(* {rel}:{exp.lineno} used loop: `if {_u(exp.test)}:` expand the directory object *)\n"
             f"Definition expand (isdir dry shallow : bool) : bool := {t2}.\n"
             f"(* {rel}:{ld.lineno} `{_u(ld)}` *)\n"
             f"Definition tree_source : tree_src := {tree_source}.\n")
    o.append(f"(* {rel}:{sl.lineno} `for hash_ in {_u(sl.iter)}` *)\n"
             f"Definition scan_source : scan_src := {scan_source}.\n"
             f"(* {rel}:{sskip.lineno} scan loop: `if {_u(sskip.test)}: continue` *)\n"
             f"Definition scan_skip (in_used dry shallow : bool) : bool := {t3}.\n"
             f"(* {rel}:{part.lineno} scan loop: `if {_u(part.test)}: {tb} else: {eb}`"
             f"{' (+ odb._remove_unpacked_dir(hash_): legacy side directory, not an object)' if unpack else ''} *)\n"
             "Definition scan_target (is_dir dry shallow : bool) : paths_list :=\n"
             f"  if {t4} then {lists[tb]} else {lists[eb]}.\n"
             f"Definition calls_remove_unpacked_dir : bool := {'true' if unpack else 'false'}.\n")
    o.append(f"(* {rel}:{rl.lineno} `for paths in ({', '.join(rlists)}):` *)\n"
             f"Definition removal_lists : list paths_list := [{'; '.join(names[x] for x in rlists)}].\n"
             f"(* {rel}:{cnt.lineno} `if {_u(cnt.test)}: num_removed += len(paths)` *)\n"
             f"Definition counted (ne dry shallow : bool) : bool := {t5}.\n"
             f"(* {rel}:{rm.lineno} nested `if {_u(rm.test)}: odb.fs.remove(paths)` *)\n"
             f"Definition removed (ne dry shallow : bool) : bool := {t5} && {t6}.\n")
    o.append("(* the statement sequence of gc(), as recognised (any other sequence fails closed) *)\n"
             f"Definition phases : list phase := [{'; '.join(phases)}].\n")
    return u
