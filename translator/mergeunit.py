"""Translator unit "merge" (property C19): hashfile/tree.py `_diff`, `_merge` and the load / merge /
digest skeleton of `merge` -> coq/theories/Gen/Merge.v.

The three functions are outside the statement subset of units.FuncTr (library calls, try/except, a
loop that raises), so they have their own fail-closed translation.  Every statement must have one of
the shapes listed below (compared on the AST / its unparsed text); what FLOWS from the source into the
Gallina text is

  _diff   * the default policy (`if not allowed: allowed = [<names>]`), the order of the two arguments
            of `diff(...)`, the membership test of the filtering loop and the exception it raises;
  _merge  * the SEQUENCE of its statements, translated one by one with the source's variable names:
              V = _diff(D1, D2, allowed=allowed)        which dictionaries, which policy
              if not V: return copy.deepcopy(D)         which diff is tested, which side is returned
              try: V = patch(L1 + L2, D) ... except C:  the order of the concatenations, the patched
                   raise MergeError(...)                dictionary, the exception classes C caught
              V = list(diff(D1, D2))                    what is compared
              if V: <paths of D1 | D2>; raise MergeError(...)
              return D
            so that computing a diff twice from the same side, swapping or moving a shortcut, patching
            in one order only, comparing a result with itself or catching another exception class
            all change the generated term;
  merge   * the order of the loads, the dictionaries handed to `_merge` and in which order, that the
            result is rebuilt entry by entry, digested and returned.

The environment is abstract: `dd_diff` / `dd_patch` (dictdiffer), `op_typ` (the first component of a
diff record), `conflict_paths` (evaluating the message of the final MergeError), `load`, `digest`
are Section variables of the generated file; Model/Merge.v supplies them and Proofs/MergeGen.v proves
that the hand-written `diff_`, `merge_`, `merge_obj` ARE the generated functions.

Anything else raises Unsupported -> the unit fails closed (a broken translation obligation).
"""

from __future__ import annotations

import ast

RUNTIME = '''(* ---- runtime of this unit (fixed text) ------------------------------------------------------ *)
(* exception classes the three functions can meet, and results *)
Inductive err := MergeError | KeyError | TypeError | LoadError.
Inductive result (A : Type) := Ok (a : A) | Err (e : err).
Arguments Ok {A} _.
Arguments Err {A} _.

(* the operation names of dictdiffer: 'add', 'remove', 'change' *)
Inductive kind := KAdd | KRemove | KChange.
Definition kind_eqb (a b : kind) : bool :=
  match a, b with KAdd, KAdd | KRemove, KRemove | KChange, KChange => true | _, _ => false end.
(* `x in lst` *)
Definition kind_in (k : kind) (l : list kind) : bool := existsb (kind_eqb k) l.

(* try: r  except <classes>: raise MergeError(...) *)
Definition g_catch {A} (catches : err -> bool) (r : result A) : result A :=
  match r with
  | Ok a => Ok a
  | Err e => if catches e then Err MergeError else Err e
  end.
'''

KIND = {"add": "KAdd", "remove": "KRemove", "change": "KChange"}
# exception class -> the constructors of [err] it catches (Python subclassing)
CATCH = {
    "KeyError": ["KeyError"],
    "LookupError": ["KeyError"],
    "TypeError": ["TypeError"],
    "MergeError": ["MergeError"],
    "Exception": ["MergeError", "KeyError", "TypeError", "LoadError"],
    "BaseException": ["MergeError", "KeyError", "TypeError", "LoadError"],
}


def _u(n):
    return ast.unparse(n)


def _body(f):
    return [s for s in f.body
            if not (isinstance(s, ast.Expr) and isinstance(s.value, ast.Constant) and isinstance(s.value.value, str))]


def _sig(U, f, names, what):
    a = f.args
    if [x.arg for x in a.args] != names or a.vararg or a.kwarg or a.kwonlyargs or a.posonlyargs:
        raise U.Unsupported(f"{what}: signature is not ({', '.join(names)})")
    if [_u(d) for d in a.defaults] != ["None"]:
        raise U.Unsupported(f"{what}: the only default must be allowed=None")
    if f.decorator_list:
        raise U.Unsupported(f"{what}: decorated")


def _raises_merge_error(U, s, what):
    if not (isinstance(s, ast.Raise) and s.cause is None and isinstance(s.exc, ast.Call)
            and _u(s.exc.func) == "MergeError"):
        raise U.Unsupported(f"{what}: expected `raise MergeError(...)`, found `{_u(s)}`")


# ---------------------------------------------------------------------------------------------
# _diff


def _tr_diff(U, u, tree, rel):
    f = u.find_func(tree, "_diff")
    u.note(f)
    _sig(U, f, ["ancestor", "other", "allowed"], "_diff")
    b = _body(f)
    if len(b) != 5:
        raise U.Unsupported(f"_diff: {len(b)} statements instead of import / default / diff / filter loop / return")
    if _u(b[0]) != "from dictdiffer import diff":
        raise U.Unsupported(f"_diff: statement 0 is `{_u(b[0])}`, not `from dictdiffer import diff`")
    d = b[1]
    if not (isinstance(d, ast.If) and _u(d.test) == "not allowed" and not d.orelse and len(d.body) == 1
            and isinstance(d.body[0], ast.Assign) and _u(d.body[0].targets[0]) == "allowed"
            and len(d.body[0].targets) == 1 and isinstance(d.body[0].value, ast.List)
            and all(isinstance(e, ast.Constant) and e.value in KIND for e in d.body[0].value.elts)):
        raise U.Unsupported(f"_diff: statement 1 is not `if not allowed: allowed = [<operation names>]`: `{_u(d)}`")
    default = [KIND[e.value] for e in d.body[0].value.elts]
    r = b[2]
    ok = (isinstance(r, ast.Assign) and len(r.targets) == 1 and _u(r.targets[0]) == "result"
          and isinstance(r.value, ast.Call) and _u(r.value.func) == "list" and len(r.value.args) == 1
          and not r.value.keywords and isinstance(r.value.args[0], ast.Call) and _u(r.value.args[0].func) == "diff"
          and not r.value.args[0].keywords and len(r.value.args[0].args) == 2
          and all(isinstance(x, ast.Name) and x.id in ("ancestor", "other") for x in r.value.args[0].args))
    if not ok:
        raise U.Unsupported(f"_diff: statement 2 is not `result = list(diff(<ancestor|other>, <ancestor|other>))`: `{_u(r)}`")
    dargs = [x.id for x in r.value.args[0].args]
    lp = b[3]
    ok = (isinstance(lp, ast.For) and _u(lp.target) == "(typ, _, _)" and _u(lp.iter) == "result" and not lp.orelse
          and len(lp.body) == 1 and isinstance(lp.body[0], ast.If) and not lp.body[0].orelse
          and len(lp.body[0].body) == 1)
    if not ok:
        raise U.Unsupported(f"_diff: statement 3 is not `for typ, _, _ in result: if <test>: raise ...`: `{_u(lp)}`")
    test = lp.body[0].test
    if _u(test) != "typ not in allowed":
        raise U.Unsupported(f"_diff: the filter test is `{_u(test)}`, not `typ not in allowed`")
    _raises_merge_error(U, lp.body[0].body[0], "_diff: filter loop")
    if _u(b[4]) != "return result":
        raise U.Unsupported(f"_diff: the last statement is `{_u(b[4])}`, not `return result`")
    o = u.out
    o.append(f"  (* {rel}:{d.lineno} `if not allowed: allowed = {_u(d.body[0].value)}` - None and [] are both falsy *)\n"
             f"  Definition g_default : list kind := [{'; '.join(default)}].\n"
             "  Definition g_effective (allowed : option (list kind)) : list kind :=\n"
             "    match allowed with\n    | None => g_default\n    | Some [] => g_default\n    | Some l => l\n    end.\n")
    o.append(f"  (* {rel}:{f.lineno} _diff: result = list(diff({', '.join(dargs)})); "
             "for typ, _, _ in result: if typ not in allowed: raise MergeError; return result *)\n"
             "  Definition g_diff (allowed : option (list kind)) (ancestor other : dict) : result (list op) :=\n"
             "    let allowed := g_effective allowed in\n"
             f"    let result := dd_diff {' '.join(dargs)} in\n"
             "    if forallb (fun r => kind_in (op_typ r) allowed) result then Ok result else Err MergeError.\n")


# ---------------------------------------------------------------------------------------------
# _merge: statement-by-statement


class _Env:
    def __init__(self):
        self.dicts = {"ancestor", "our", "their"}
        self.ops = set()


def _dict_name(U, env, n, what):
    if isinstance(n, ast.Name) and n.id in env.dicts:
        return n.id
    raise U.Unsupported(f"_merge: {what}: `{_u(n)}` is not a dictionary variable in scope ({sorted(env.dicts)})")


def _ops_expr(U, env, n, what):
    if isinstance(n, ast.Name) and n.id in env.ops:
        return n.id
    if isinstance(n, ast.BinOp) and isinstance(n.op, ast.Add):
        return f"({_ops_expr(U, env, n.left, what)} ++ {_ops_expr(U, env, n.right, what)})"
    raise U.Unsupported(f"_merge: {what}: `{_u(n)}` is not a diff variable or a concatenation of diff variables")


PATHS_TEMPLATE = ("sorted((posixpath.join(*key) for key in {p}.keys() | {q}.keys() "
                  "if {p}.get(key) != {q}.get(key)))")


def _tr_stmts(U, env, stmts, ind, rel):
    """-> Gallina text of type [result dict] for the statement list"""
    pad = " " * ind
    if not stmts:
        raise U.Unsupported("_merge: control reaches the end of the function without `return`")
    s, rest = stmts[0], stmts[1:]
    src = f"{pad}(* {rel}:{s.lineno} {_u(s).splitlines()[0][:90]} *)\n"

    # V = _diff(D1, D2, allowed=allowed)
    if isinstance(s, ast.Assign) and isinstance(s.value, ast.Call) and _u(s.value.func) == "_diff":
        c = s.value
        if not (len(s.targets) == 1 and isinstance(s.targets[0], ast.Name) and len(c.args) == 2
                and [(k.arg, _u(k.value)) for k in c.keywords] == [("allowed", "allowed")]):
            raise U.Unsupported(f"_merge: not `V = _diff(D1, D2, allowed=allowed)`: `{_u(s)}`")
        d1, d2 = (_dict_name(U, env, a, "_diff argument") for a in c.args)
        v = s.targets[0].id
        if v in env.dicts or v in env.ops:
            raise U.Unsupported(f"_merge: `{v}` is assigned twice")
        env.ops.add(v)
        return (src + f"{pad}match g_diff allowed {d1} {d2} with\n{pad}| Err e => Err e\n{pad}| Ok {v} =>\n"
                + _tr_stmts(U, env, rest, ind + 4, rel) + f"\n{pad}end")

    # V = list(diff(D1, D2))
    if isinstance(s, ast.Assign) and isinstance(s.value, ast.Call) and _u(s.value.func) == "list":
        c = s.value
        ok = (len(s.targets) == 1 and isinstance(s.targets[0], ast.Name) and len(c.args) == 1 and not c.keywords
              and isinstance(c.args[0], ast.Call) and _u(c.args[0].func) == "diff" and len(c.args[0].args) == 2
              and not c.args[0].keywords)
        if not ok:
            raise U.Unsupported(f"_merge: not `V = list(diff(D1, D2))`: `{_u(s)}`")
        d1, d2 = (_dict_name(U, env, a, "diff argument") for a in c.args[0].args)
        v = s.targets[0].id
        if v in env.dicts or v in env.ops:
            raise U.Unsupported(f"_merge: `{v}` is assigned twice")
        env.ops.add(v)
        return src + f"{pad}let {v} := dd_diff {d1} {d2} in\n" + _tr_stmts(U, env, rest, ind, rel)

    # if not V: return copy.deepcopy(D)
    if isinstance(s, ast.If) and isinstance(s.test, ast.UnaryOp) and isinstance(s.test.op, ast.Not):
        t = s.test.operand
        if not (isinstance(t, ast.Name) and t.id in env.ops and not s.orelse and len(s.body) == 1
                and isinstance(s.body[0], ast.Return) and isinstance(s.body[0].value, ast.Call)
                and _u(s.body[0].value.func) == "copy.deepcopy" and len(s.body[0].value.args) == 1
                and not s.body[0].value.keywords):
            raise U.Unsupported(f"_merge: not `if not <diff>: return copy.deepcopy(<dict>)`: `{_u(s)}`")
        d = _dict_name(U, env, s.body[0].value.args[0], "returned side")
        return (src + f"{pad}match {t.id} with\n{pad}| [] => Ok {d}\n{pad}| _ :: _ =>\n"
                + _tr_stmts(U, env, rest, ind + 4, rel) + f"\n{pad}end")

    # try: V = patch(L, D) ...  except C: raise MergeError(...)
    if isinstance(s, ast.Try):
        if s.orelse or s.finalbody or len(s.handlers) != 1 or not s.body:
            raise U.Unsupported("_merge: the try statement must have exactly one handler and no else/finally")
        h = s.handlers[0]
        if h.type is None:
            classes = ["BaseException"]
        elif isinstance(h.type, ast.Name):
            classes = [h.type.id]
        elif isinstance(h.type, ast.Tuple) and all(isinstance(e, ast.Name) for e in h.type.elts):
            classes = [e.id for e in h.type.elts]
        else:
            raise U.Unsupported(f"_merge: unsupported exception specification `{_u(h.type)}`")
        for c in classes:
            if c not in CATCH:
                raise U.Unsupported(f"_merge: exception class `{c}` is outside the translator's table")
        if len(h.body) != 1:
            raise U.Unsupported("_merge: the handler must consist of `raise MergeError(...)` only")
        _raises_merge_error(U, h.body[0], "_merge: handler")
        caught = sorted({k for c in classes for k in CATCH[c]})
        vs, inner_open = [], []
        for a in s.body:
            c = a.value if isinstance(a, ast.Assign) else None
            if not (c is not None and len(a.targets) == 1 and isinstance(a.targets[0], ast.Name)
                    and isinstance(c, ast.Call) and _u(c.func) == "patch" and len(c.args) == 2 and not c.keywords):
                raise U.Unsupported(f"_merge: statement inside try is not `V = patch(<diffs>, <dict>)`: `{_u(a)}`")
            ops = _ops_expr(U, env, c.args[0], "patch argument")
            d = _dict_name(U, env, c.args[1], "patched dictionary")
            v = a.targets[0].id
            if v in env.dicts or v in env.ops or v in vs:
                raise U.Unsupported(f"_merge: `{v}` is assigned twice")
            vs.append(v)
            inner_open.append((v, ops, d, a.lineno, _u(a)))
        for v in vs:
            env.dicts.add(v)
        tup = vs[0] if len(vs) == 1 else "(" + ", ".join(vs) + ")"
        p2 = pad + "    "
        inner = ""
        for i, (v, ops, d, ln, txt) in enumerate(inner_open):
            q = p2 + "  " * i
            inner += f"{q}(* {rel}:{ln} {txt[:90]} *)\n{q}match dd_patch {ops} {d} with\n{q}| Err e => Err e\n{q}| Ok {v} =>\n"
        inner += p2 + "  " * len(inner_open) + f"Ok {tup}\n"
        for i in reversed(range(len(inner_open))):
            inner += p2 + "  " * i + "end\n"
        catches = "(fun e => match e with " + " | ".join(caught) + " => true" \
            + (" | _ => false" if len(caught) < 4 else "") + " end)"
        return (src + f"{pad}(* except {_u(h.type) if h.type is not None else ''}: raise MergeError *)\n"
                f"{pad}match g_catch {catches}\n{pad}  (\n" + inner + f"{pad}  ) with\n{pad}| Err e => Err e\n"
                f"{pad}| Ok {tup} =>\n" + _tr_stmts(U, env, rest, ind + 4, rel) + f"\n{pad}end")

    # if V: paths = sorted(...); raise MergeError(...)
    if isinstance(s, ast.If) and isinstance(s.test, ast.Name):
        if not (s.test.id in env.ops and not s.orelse and len(s.body) == 2 and isinstance(s.body[0], ast.Assign)
                and len(s.body[0].targets) == 1 and isinstance(s.body[0].targets[0], ast.Name)):
            raise U.Unsupported(f"_merge: not `if <diff>: <paths> = sorted(...); raise MergeError(...)`: `{_u(s)}`")
        _raises_merge_error(U, s.body[1], "_merge: conflict branch")
        val = _u(s.body[0].value)
        found = None
        for p in sorted(env.dicts):
            for q in sorted(env.dicts):
                if val == PATHS_TEMPLATE.format(p=p, q=q):
                    found = (p, q)
        if found is None:
            raise U.Unsupported("_merge: the conflicting paths are not computed as `sorted(posixpath.join(*key) for key "
                                f"in P.keys() | Q.keys() if P.get(key) != Q.get(key))`: `{val}`")
        pv = s.body[0].targets[0].id
        used = {n.id for n in ast.walk(s.body[1]) if isinstance(n, ast.Name)}
        if not used <= {"MergeError", pv}:
            raise U.Unsupported(f"_merge: the MergeError message evaluates other variables: {sorted(used)}")
        return (src + f"{pad}match {s.test.id} with\n{pad}| _ :: _ =>\n"
                f"{pad}    (* {rel}:{s.body[0].lineno} the message: posixpath.join( *key) for every key on which "
                f"{found[0]} and {found[1]} differ *)\n"
                f"{pad}    match conflict_paths {found[0]} {found[1]} with\n{pad}    | Err e => Err e\n"
                f"{pad}    | Ok _ => Err MergeError\n{pad}    end\n{pad}| [] =>\n"
                + _tr_stmts(U, env, rest, ind + 4, rel) + f"\n{pad}end")

    # return D
    if isinstance(s, ast.Return):
        if rest:
            raise U.Unsupported("_merge: statements after `return`")
        if s.value is None:
            raise U.Unsupported("_merge: bare return")
        d = _dict_name(U, env, s.value, "returned value")
        return src + f"{pad}Ok {d}"

    raise U.Unsupported(f"_merge: unsupported statement `{_u(s).splitlines()[0]}`")


def _tr_merge_dicts(U, u, tree, rel):
    f = u.find_func(tree, "_merge")
    u.note(f)
    _sig(U, f, ["ancestor", "our", "their", "allowed"], "_merge")
    b = _body(f)
    imports = []
    while b and isinstance(b[0], (ast.Import, ast.ImportFrom)):
        imports.append(_u(b[0]))
        b = b[1:]
    if sorted(imports) != ["from dictdiffer import diff, patch", "import copy"]:
        raise U.Unsupported(f"_merge: imports are {imports}")
    text = _tr_stmts(U, _Env(), b, 4, rel)
    u.out.append(f"  (* {rel}:{f.lineno} _merge, statement by statement *)\n"
                 "  Definition g_merge (allowed : option (list kind)) (ancestor our their : dict) : result dict :=\n"
                 + text + ".\n")


# ---------------------------------------------------------------------------------------------
# merge: load, _merge, rebuild, digest


def _tr_merge_obj(U, u, tree, rel):
    f = u.find_func(tree, "merge")
    u.note(f)
    _sig(U, f, ["odb", "ancestor_info", "our_info", "their_info", "allowed"], "merge")
    b = _body(f)
    want_head = ["from . import load", "assert our_info", "assert their_info"]
    if [_u(s) for s in b[:3]] != want_head:
        raise U.Unsupported(f"merge: the first statements are {[_u(s) for s in b[:3]]}, not {want_head}")
    i = 3
    loads = []  # (variable, info parameter, optional?)
    while i < len(b):
        s = b[i]
        if isinstance(s, ast.If):
            if _u(s.test) not in ("ancestor_info", "our_info", "their_info") or len(s.body) != 2 or len(s.orelse) != 1:
                break
            info = _u(s.test)
            a0, a1, e0 = s.body[0], s.body[1], s.orelse[0]
            if not (isinstance(a0, ast.Assign) and len(a0.targets) == 1 and isinstance(a0.targets[0], ast.Name)
                    and _u(a0.value) == f"load(odb, {info})"
                    and _u(a1) == f"assert isinstance({a0.targets[0].id}, Tree)"
                    and _u(e0) == f"{a0.targets[0].id} = Tree()"):
                raise U.Unsupported(f"merge: not `if INFO: V = load(odb, INFO); assert isinstance(V, Tree) else: V = Tree()`: `{_u(s)}`")
            loads.append((a0.targets[0].id, info, True))
            i += 1
        elif isinstance(s, ast.Assign) and isinstance(s.value, ast.Call) and _u(s.value.func) == "load":
            if not (len(s.targets) == 1 and isinstance(s.targets[0], ast.Name) and len(s.value.args) == 2
                    and not s.value.keywords and _u(s.value.args[0]) == "odb"
                    and _u(s.value.args[1]) in ("ancestor_info", "our_info", "their_info")
                    and i + 1 < len(b) and _u(b[i + 1]) == f"assert isinstance({s.targets[0].id}, Tree)"):
                raise U.Unsupported(f"merge: not `V = load(odb, INFO); assert isinstance(V, Tree)`: `{_u(s)}`")
            loads.append((s.targets[0].id, _u(s.value.args[1]), False))
            i += 2
        else:
            break
    if len({v for v, _, _ in loads}) != len(loads) or len(loads) != 3:
        raise U.Unsupported(f"merge: loads {loads}")
    tail = b[i:]
    if len(tail) != 5:
        raise U.Unsupported(f"merge: {len(tail)} statements after the loads instead of _merge / Tree() / fill / digest / return")
    m = tail[0]
    ok = (isinstance(m, ast.Assign) and len(m.targets) == 1 and _u(m.targets[0]) == "merged_dict"
          and isinstance(m.value, ast.Call) and _u(m.value.func) == "_merge" and len(m.value.args) == 3
          and [(k.arg, _u(k.value)) for k in m.value.keywords] == [("allowed", "allowed")])
    if not ok:
        raise U.Unsupported(f"merge: not `merged_dict = _merge(A.as_dict(), B.as_dict(), C.as_dict(), allowed=allowed)`: `{_u(m)}`")
    margs = []
    for a in m.value.args:
        if not (isinstance(a, ast.Call) and not a.args and not a.keywords and isinstance(a.func, ast.Attribute)
                and a.func.attr == "as_dict" and isinstance(a.func.value, ast.Name)
                and a.func.value.id in [v for v, _, _ in loads]):
            raise U.Unsupported(f"merge: `_merge` argument `{_u(a)}` is not <loaded tree>.as_dict()")
        margs.append(a.func.value.id)
    want_tail = ["merged = Tree()",
                 "for key, (meta, oid) in merged_dict.items():\n    merged.add(key, meta, oid)",
                 "merged.digest()", "return merged"]
    if [_u(s) for s in tail[1:]] != want_tail:
        raise U.Unsupported(f"merge: the result is not rebuilt / digested / returned as recognised: {[_u(s) for s in tail[1:]]}")
    par = {"ancestor_info": "ai", "our_info": "oi", "their_info": "ti"}
    opt = {info: o for _, info, o in loads}
    binders = " ".join(f"({par[i]} : {'option oid' if opt.get(i) else 'oid'})" for i in ("ancestor_info", "our_info", "their_info")
                       if i in opt)
    if set(opt) != set(par):
        raise U.Unsupported(f"merge: loads {loads} do not cover the three infos")
    o = u.out
    o.append("  (* load(odb, info): None = the object cannot be loaded *)\n"
             "  Definition g_load (i : oid) : result dict :=\n"
             "    match load i with Some d => Ok d | None => Err LoadError end.\n")
    text = ""
    ind = 4
    closers = []
    for v, info, optional in loads:
        pad = " " * ind
        if optional:
            src = f"match {par[info]} with Some i => g_load i | None => Ok empty end"
            cm = f"if {info}: {v} = load(odb, {info}) else: {v} = Tree()"
        else:
            src = f"g_load {par[info]}"
            cm = f"{v} = load(odb, {info})"
        text += f"{pad}(* {cm} *)\n{pad}match {src} with\n{pad}| Err e => Err e\n{pad}| Ok {v} =>\n"
        closers.append(pad + "end")
        ind += 2
    pad = " " * ind
    text += (f"{pad}(* {rel}:{m.lineno} {_u(m)[:100]} *)\n"
             f"{pad}match g_merge allowed {' '.join(margs)} with\n{pad}| Err e => Err e\n"
             f"{pad}(* merged = Tree(); merged.add(...) for every item; merged.digest(); return merged *)\n"
             f"{pad}| Ok merged_dict => Ok (digest merged_dict, merged_dict)\n{pad}end\n")
    text += "\n".join(reversed(closers))
    o.append(f"  (* {rel}:{f.lineno} merge: the returned tree is (its identifier, its listing) *)\n"
             f"  Definition g_merge_obj {binders} (allowed : option (list kind)) : result (oid * dict) :=\n"
             + text + ".\n")


def unit_merge(u):
    import units as U

    tree, rel = u.load("hashfile/tree.py")
    u.cur_rel = rel
    # MergeError must be a plain exception class of its own (not a KeyError / TypeError subclass)
    cls = next((n for n in tree.body if isinstance(n, ast.ClassDef) and n.name == "MergeError"), None)
    if cls is None or [_u(b) for b in cls.bases] != ["Exception"]:
        raise U.Unsupported("class MergeError(Exception) not found")
    u.note(cls)
    o = u.out
    o.append(RUNTIME)
    o.append("Section generated.\n"
             "  (* the environment: dictdiffer (list(diff(x, y)), patch(ops, d)), the `typ` of a diff record,\n"
             "     the evaluation of the final MergeError's message, the object store, Tree.digest *)\n"
             "  Context {dict op oid : Type}.\n"
             "  Context (dd_diff : dict -> dict -> list op) (dd_patch : list op -> dict -> result dict)\n"
             "          (op_typ : op -> kind) (conflict_paths : dict -> dict -> result unit)\n"
             "          (load : oid -> option dict) (digest : dict -> oid) (empty : dict).\n")
    _tr_diff(U, u, tree, rel)
    _tr_merge_dicts(U, u, tree, rel)
    _tr_merge_obj(U, u, tree, rel)
    o.append("End generated.\n")
    return u
