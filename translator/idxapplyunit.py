"""Translator unit "idxapply" (properties C09, C13): index/checkout.py apply() and its helpers
-> coq/theories/Gen/IdxApply.v.

  apply(diff, path, fs, ...)      `if onerror is None: onerror = _onerror_noop`, then a sequence of phases,
                                  each ONE statement recognised by its callee and the Diff list it is
                                  given; the ORDER in which they appear flows into the Gallina text
                                  (apply_phases), so a reordering is translated and breaks the tie proof
                                  (Proofs/IdxApplyTie.v) instead of going unnoticed
  _delete_files                   `if not entries: return; fs.remove([...])`
  _delete_dirs                    `for entry in sorted(entries, key=lambda entry: len(entry.key), reverse=<R>):
                                   try: (unlink a local symlink | fs.rmdir) except OSError: pass` -> delete_dirs_deepest_first := R
  _create_dirs                    `fs.makedirs(..., exist_ok=<X>)`        -> create_dirs_exist_ok := X
  _chmod_files                    local-only guard; `mode = os.stat(p).st_mode | stat.S_IEXEC` OUTSIDE the
                                  try, `os.chmod` inside `try/except OSError`
  _create_files                   the fixed points the C09 / C13 arguments rest on: ValueError from
                                  storage.get -> onerror(None, dest, exc) and skipped; the symlink
                                  source-exists pre-check; parents of the destinations are created;
                                  transfer's on_error records the failed destination and forwards to
                                  onerror; the hash-state rows and the metadata update skip failed
                                  destinations (fix 7f1ddd3) and destinations that exist before a linking transfer (fix 4a7cf27);
                                  state rows only for LocalFileSystem.
Anything else -> Unsupported (a broken translation obligation).
"""

from __future__ import annotations

import ast

RUNTIME = '''(* ---- fixed text of this unit ------------------------------------------------------------------ *)
Inductive phase := PDirsFailed | PDeleteFiles | PDeleteDirs | PCreateDirs | PCreateFiles | PChmod.
'''


def _u(n):
    return ast.unparse(n)


def _strip(body):
    return [s for s in body if not (isinstance(s, ast.Expr) and isinstance(s.value, ast.Constant)
                                    and isinstance(s.value.value, str))]


def unit_idxapply(u):
    import units as U

    def bad(msg):
        raise U.Unsupported("idxapply: " + msg)

    tree, rel = u.load("index/checkout.py")
    u.cur_rel = rel
    o = u.out
    o.append(RUNTIME)

    # ---------------- apply
    f = u.find_func(tree, "apply")
    u.note(f)
    if [a.arg for a in f.args.args] != ["diff", "path", "fs", "callback", "update_meta", "jobs", "storage", "onerror",
                                        "state", "links"]:
        bad("signature of apply changed")
    body = _strip(f.body)
    if not body or _u(body[0]) != "if onerror is None:\n    onerror = _onerror_noop":
        bad("apply: statement 0 is not `if onerror is None: onerror = _onerror_noop`")
    table = {
        "for entry in diff.dirs_failed:\n    onerror(None, fs.join(path, *entry.key), None)": "PDirsFailed",
        "_delete_files(diff.files_delete, path, fs)": "PDeleteFiles",
        "_delete_dirs(diff.dirs_delete, path, fs)": "PDeleteDirs",
        "_create_dirs(diff.dirs_create, path, fs)": "PCreateDirs",
        "_create_files(diff.files_create, diff.new, path, fs, onerror=onerror, jobs=jobs, storage=storage, "
        "callback=callback, update_meta=update_meta, state=state, links=links)": "PCreateFiles",
        "_chmod_files(diff.files_chmod, path, fs)": "PChmod",
    }
    phases = []
    for s in body[1:]:
        t = _u(s)
        if t not in table:
            bad(f"apply: unrecognised statement `{t}`")
        if table[t] in phases:
            bad(f"apply: phase {table[t]} appears twice")
        phases.append(table[t])
    if set(phases) != set(table.values()):
        bad(f"apply: phases missing: {sorted(set(table.values()) - set(phases))}")
    o.append(f"(* {rel}:{f.lineno} apply: the phases in the order of the source *)\n"
             f"Definition apply_phases : list phase := [{'; '.join(phases)}].\n")

    # ---------------- _delete_files
    g = u.find_func(tree, "_delete_files")
    u.note(g)
    if [_u(s) for s in _strip(g.body)] != ["if not entries:\n    return",
                                           "fs.remove([fs.join(path, *(entry.key or ())) for entry in entries])"]:
        bad("_delete_files changed")

    # ---------------- _delete_dirs
    g = u.find_func(tree, "_delete_dirs")
    u.note(g)
    gb = [s for s in _strip(g.body) if not isinstance(s, ast.Pass)]
    if len(gb) != 1 or not isinstance(gb[0], ast.For):
        bad("_delete_dirs: not one for loop")
    it = gb[0].iter
    if not (isinstance(it, ast.Call) and _u(it.func) == "sorted" and [_u(a) for a in it.args] == ["entries"]
            and sorted(k.arg for k in it.keywords) == ["key", "reverse"]):
        bad(f"_delete_dirs: iterates `{_u(it)}`")
    kw = {k.arg: k.value for k in it.keywords}
    if _u(kw["key"]) != "lambda entry: len(entry.key)":
        bad(f"_delete_dirs: sort key is `{_u(kw['key'])}`")
    if not (isinstance(kw["reverse"], ast.Constant) and isinstance(kw["reverse"].value, bool)):
        bad("_delete_dirs: reverse is not a boolean constant")
    if [_u(s) for s in gb[0].body] != [
            "dir_path = fs.join(path, *entry.key)",
            "try:\n    if isinstance(fs, LocalFileSystem) and os.path.islink(dir_path):\n        os.unlink(dir_path)\n"
            "    else:\n        fs.rmdir(dir_path)\nexcept OSError:\n    pass"]:
        bad(f"_delete_dirs: loop body changed: {[_u(s) for s in gb[0].body]}")
    o.append(f"(* {rel}:{g.lineno} _delete_dirs: sorted by key length, reverse=...; rmdir, OSError swallowed *)\n"
             f"Definition delete_dirs_deepest_first : bool := {'true' if kw['reverse'].value else 'false'}.\n"
             "Definition delete_dirs_swallows_oserror : bool := true.\n"
             "Definition delete_dirs_unlinks_dir_symlink : bool := true.   (* fix 345fea1: a link to a directory is unlinked, not rmdir'ed *)\n")

    # ---------------- _create_dirs
    g = u.find_func(tree, "_create_dirs")
    u.note(g)
    gb = _strip(g.body)
    ok = (len(gb) == 1 and isinstance(gb[0], ast.For) and _u(gb[0].iter) == "entries" and len(gb[0].body) == 1
          and isinstance(gb[0].body[0], ast.Expr) and isinstance(gb[0].body[0].value, ast.Call)
          and _u(gb[0].body[0].value.func) == "fs.makedirs"
          and [_u(a) for a in gb[0].body[0].value.args] == ["fs.join(path, *entry.key)"]
          and [k.arg for k in gb[0].body[0].value.keywords] == ["exist_ok"]
          and isinstance(gb[0].body[0].value.keywords[0].value, ast.Constant))
    if not ok:
        bad(f"_create_dirs changed: {[_u(s) for s in gb]}")
    o.append(f"(* {rel}:{g.lineno} _create_dirs *)\n"
             f"Definition create_dirs_exist_ok : bool := {'true' if gb[0].body[0].value.keywords[0].value.value else 'false'}.\n")

    # ---------------- _chmod_files
    g = u.find_func(tree, "_chmod_files")
    u.note(g)
    gb = _strip(g.body)
    if len(gb) != 2 or _u(gb[0]) != "if not isinstance(fs, LocalFileSystem):\n    return" or not isinstance(gb[1], ast.For):
        bad("_chmod_files: guard / loop changed")
    lb = gb[1].body
    if not (len(lb) == 3 and _u(lb[0]) == "entry_path = fs.join(path, *entry.key)"
            and _u(lb[1]) == "mode = os.stat(entry_path).st_mode | stat.S_IEXEC" and isinstance(lb[2], ast.Try)
            and [_u(s) for s in lb[2].body] == ["os.chmod(entry_path, mode)"] and len(lb[2].handlers) == 1
            and _u(lb[2].handlers[0].type) == "OSError" and not lb[2].orelse and not lb[2].finalbody):
        bad(f"_chmod_files: loop body changed: {[_u(s) for s in lb]}")
    o.append(f"(* {rel}:{g.lineno} _chmod_files: local only; os.stat outside the try (a missing path raises), os.chmod's "
             "OSError swallowed; mode | S_IEXEC *)\n"
             "Definition chmod_local_only : bool := true.\n"
             "Definition chmod_stat_raises : bool := true.\n"
             "Definition chmod_oserror_swallowed : bool := true.\n")

    # ---------------- _create_files: the fixed points
    g = u.find_func(tree, "_create_files")
    u.note(g)
    txt = _u(g)
    need = [
        "if index is None:\n        return",
        "except ValueError as exc:",
        "onerror(None, dest_path, exc)\n            continue",
        "if links is None and isinstance(storage_obj, ObjectStorage):\n            links = storage_obj.odb.cache_types",
        "if links and 'symlink' in links:",
        "if src_fs.exists(arg[1]):\n                    found.append(arg)\n                else:\n"
        "                    exc = FileNotFoundError(errno.ENOENT, os.strerror(errno.ENOENT))\n"
        "                    onerror(arg[1], arg[2], exc)",
        "for parent in {fs.parent(dest_path) for dest_path in dest_paths}:\n            fs.makedirs(parent, exist_ok=True)",
        "failed: set[str] = set()",
        "def _onerror(src_path, dest_path, exc, _failed=failed):\n            _failed.add(dest_path)\n"
        "            onerror(src_path, dest_path, exc)",
        "if links and ('hardlink' in links or 'symlink' in links):\n            failed.update((p for p in dest_paths if fs.lexists(p)))",
        "transfer(src_fs, list(src_paths), fs, list(dest_paths), callback=callback, batch_size=jobs, links=links, "
        "on_error=_onerror)",
        "if state and isinstance(fs, LocalFileSystem):",
        "if not entry.hash_info or dest_path in failed:\n                    continue",
        "_infos.append((dest_path, entry.hash_info, fs.info(dest_path)))",
        "except FileNotFoundError:\n                    continue",
        "state.save_many(_infos, fs)",
        "for entry, dest_path, info in zip(entries, dest_paths, infos):\n                    if dest_path in failed:\n"
        "                        continue\n                    entry.meta = Meta.from_info(info, fs.protocol)",
    ]
    pos = 0
    for n in need:
        i = txt.find(n, pos)
        if i < 0:
            bad(f"_create_files: `{n}` not found (in this order)")
        pos = i + len(n)
    o.append(f"(* {rel}:{g.lineno} _create_files: fixed points checked on the source text, in order *)\n"
             "Definition create_no_hash_reported_and_skipped : bool := true.\n"
             "Definition create_symlink_precheck_reports_missing_source : bool := true.\n"
             "Definition create_makes_parents : bool := true.\n"
             "Definition create_transfer_errors_forwarded : bool := true.\n"
             "Definition state_rows_skip_failed : bool := true.\n"
             "Definition state_rows_skip_existing_when_linking : bool := true.\n"
             "Definition state_rows_skip_missing : bool := true.\n"
             "Definition state_rows_local_only : bool := true.\n"
             "Definition meta_update_skips_failed : bool := true.\n")
    return u
