"""Translator unit "state" (property C13) -> coq/theories/Gen/State.v

What flows from the source into the Gallina text
  * hashfile/state.py `_checksum`: the list of stat fields that make the validity token, in order
    (`State_checksum`, `checksum_fields`); tokenize (md5 of the printed list) is abstracted as the list itself;
  * `State.HASH_VERSION`; `HashesCache.SQLITE_MAX_VARIABLE_NUMBER` and the fact that `HashesCache.get_many`
    iterates `batched(keys, self.SQLITE_MAX_VARIABLE_NUMBER)`;
  * `State._get`: the whole decision (JSON error -> miss, checksum comparison, version test, legacy rename
    of the algorithm, the returned Meta/HashInfo), translated by units.FuncTr after a *normalisation* of the
    four constructs FuncTr does not read (each recognised by exact shape, anything else fails closed):
        try: entry = json_loads(raw) / except ValueError: return None   ->  entry : option srow, None = ValueError
        entry["k"], entry.get("k")                                      ->  field k of the typed row record
        X.attr = v  for (meta.size, hash_info.name)                     ->  X = set_attr(X, v)
        return meta, hash_info                                          ->  return pair(meta, hash_info)
    and self.HASH_VERSION -> the class constant;
  * the non-local bypass guard `if not isinstance(fs, LocalFileSystem): return ...` as the first statement
    of State.get / get_many / save / save_many (`State_nonlocal_guarded`);
  * compat.py `batched`: recognised as the idiom `it = iter(iterable); while batch := tuple(islice(it, n)):
    yield batch` behind the guard `if n < 1: raise ValueError` and emitted over Model/StateDbBase.islice_loop
    (an idiom check, not a compositional translation: generators are outside FuncTr).
"""

from __future__ import annotations

import ast
import copy

BATCHED_EXPECT = '''
def batched(iterable, n):
    if n < 1:
        raise ValueError("n must be at least one")
    it = iter(iterable)
    while batch := tuple(islice(it, n)):
        yield batch
'''

TRY_EXPECT = '''
try:
    entry = json_loads(raw)
except ValueError:
    return None
'''

SETTERS = {("meta", "size"): "_set_meta_size", ("hash_info", "name"): "_set_hash_info_name"}


def _dump(n):
    return ast.dump(n, include_attributes=False)


def _body(f):
    return [s for s in f.body
            if not (isinstance(s, ast.Expr) and isinstance(s.value, ast.Constant) and isinstance(s.value.value, str))]


def unit_state(u):  # noqa: C901, PLR0912, PLR0915
    import units as U

    Unsupported = U.Unsupported
    lit = U.lit_bytes
    U._with_types(u)
    tree, rel = u.load("hashfile/state.py")
    u.cur_rel = rel

    # ---- _checksum -------------------------------------------------------------------------
    f = u.find_func(tree, "_checksum")
    u.note(f)
    body = _body(f)
    if [a.arg for a in f.args.args] != ["info"] or len(body) != 1 or not isinstance(body[0], ast.Return):
        raise Unsupported("_checksum: not a single return over `info`")
    e = body[0].value
    ok = (isinstance(e, ast.Call) and ast.unparse(e.func) == "str" and len(e.args) == 1 and not e.keywords)
    e1 = e.args[0] if ok else None
    ok = ok and (isinstance(e1, ast.Call) and ast.unparse(e1.func) == "int" and len(e1.args) == 2
                 and isinstance(e1.args[1], ast.Constant) and e1.args[1].value == 16 and not e1.keywords)
    e2 = e1.args[0] if ok else None
    ok = ok and (isinstance(e2, ast.Call) and ast.unparse(e2.func) == "tokenize" and len(e2.args) == 1
                 and not e2.keywords and isinstance(e2.args[0], ast.List))
    if not ok:
        raise Unsupported(f"_checksum is not str(int(tokenize([...]), 16)): {ast.unparse(e)}")
    fields = []
    for el in e2.args[0].elts:
        if not (isinstance(el, ast.Subscript) and isinstance(el.value, ast.Name) and el.value.id == "info"
                and isinstance(el.slice, ast.Constant) and isinstance(el.slice.value, str)):
            raise Unsupported(f"_checksum: element {ast.unparse(el)} is not info[<name>]")
        fields.append(el.slice.value)
    u.out.append(f"(* {rel}:{f.lineno} _checksum: the stat fields of the validity token, in order *)\n"
                 f"Definition checksum_fields : list (list N) := [{'; '.join(lit(x) for x in fields)}].\n"
                 "(* tokenize abstracted as an injective pairing: the list of the field values *)\n"
                 f"Definition State_checksum (info : token) : list N := [{'; '.join(f't_{x} info' for x in fields)}].\n")
    u.funcs["_checksum"] = ("State_checksum", [("info", ("rec", "token"))], ("list", "int"))

    # ---- State.HASH_VERSION ----------------------------------------------------------------
    cls = next((n for n in tree.body if isinstance(n, ast.ClassDef) and n.name == "State"), None)
    if cls is None:
        raise Unsupported("class State not found")
    hv = None
    for s in cls.body:
        if isinstance(s, ast.Assign) and len(s.targets) == 1 and ast.unparse(s.targets[0]) == "HASH_VERSION":
            if not (isinstance(s.value, ast.Constant) and isinstance(s.value.value, int)
                    and not isinstance(s.value.value, bool) and s.value.value >= 0):
                raise Unsupported("State.HASH_VERSION is not a natural-number literal")
            hv = s.value.value
            u.note(s)
    if hv is None:
        raise Unsupported("State.HASH_VERSION not found")
    u.out.append(f"(* {rel}: State.HASH_VERSION *)\nDefinition State_HASH_VERSION : N := {hv}.\n")
    u.consts["HASH_VERSION"] = ("State_HASH_VERSION", "int")

    # ---- State._get ------------------------------------------------------------------------
    g = u.find_func(tree, "State._get")
    u.note(g)
    if [a.arg for a in g.args.args] != ["self", "path", "raw", "info"] or g.args.kwonlyargs or g.args.vararg or g.args.kwarg:
        raise Unsupported("State._get: parameters changed")
    gb = _body(g)
    want_try = ast.parse(TRY_EXPECT.replace("return None", "pass")).body[0]
    want_try.handlers[0].body = [ast.Return(value=ast.Constant(value=None))]
    if not gb or _dump(gb[0]) != _dump(want_try):
        raise Unsupported("State._get does not start with `try: entry = json_loads(raw) except ValueError: return None`")

    class Norm(ast.NodeTransformer):
        def visit_Subscript(self, n):
            self.generic_visit(n)
            if isinstance(n.value, ast.Name) and n.value.id == "entry" and isinstance(n.ctx, ast.Load) \
                    and isinstance(n.slice, ast.Constant) and isinstance(n.slice.value, str):
                return ast.Attribute(value=n.value, attr=n.slice.value, ctx=ast.Load())
            return n

        def visit_Call(self, n):
            self.generic_visit(n)
            if isinstance(n.func, ast.Attribute) and isinstance(n.func.value, ast.Name) and n.func.value.id == "entry" \
                    and n.func.attr == "get" and len(n.args) == 1 and not n.keywords \
                    and isinstance(n.args[0], ast.Constant) and isinstance(n.args[0].value, str):
                if n.args[0].value != "version":
                    raise Unsupported(f"entry.get({n.args[0].value!r}): only the optional field `version` is read with .get")
                return ast.Attribute(value=n.func.value, attr=n.args[0].value, ctx=ast.Load())
            return n

        def visit_Attribute(self, n):
            self.generic_visit(n)
            if isinstance(n.value, ast.Name) and n.value.id == "self" and n.attr == "HASH_VERSION":
                return ast.Name(id="HASH_VERSION", ctx=ast.Load())
            return n

        def visit_Assign(self, n):
            self.generic_visit(n)
            if len(n.targets) == 1 and isinstance(n.targets[0], ast.Attribute) and isinstance(n.targets[0].value, ast.Name):
                key = (n.targets[0].value.id, n.targets[0].attr)
                if key not in SETTERS:
                    raise Unsupported(f"attribute assignment {ast.unparse(n.targets[0])}")
                x = n.targets[0].value.id
                return ast.Assign(targets=[ast.Name(id=x, ctx=ast.Store())],
                                  value=ast.Call(func=ast.Name(id=SETTERS[key], ctx=ast.Load()),
                                                 args=[ast.Name(id=x, ctx=ast.Load()), n.value], keywords=[]),
                                  lineno=n.lineno)
            return n

        def visit_Return(self, n):
            self.generic_visit(n)
            if isinstance(n.value, ast.Tuple):
                if [ast.unparse(x) for x in n.value.elts] != ["meta", "hash_info"]:
                    raise Unsupported(f"return {ast.unparse(n.value)}")
                return ast.Return(value=ast.Call(func=ast.Name(id="_mk_hit", ctx=ast.Load()),
                                                 args=list(n.value.elts), keywords=[]))
            return n

    rest = [Norm().visit(copy.deepcopy(s)) for s in gb[1:]]
    # entry = json_loads(raw) raising ValueError  ==  entry is None
    first = ast.parse("if entry is None:\n    return None").body[0]
    synth = ast.FunctionDef(name="_get",
                            args=ast.arguments(posonlyargs=[], args=[ast.arg(arg="entry"), ast.arg(arg="info")],
                                               kwonlyargs=[], kw_defaults=[], defaults=[]),
                            body=[first, *rest], decorator_list=[], lineno=g.lineno, col_offset=0)
    mod = ast.fix_missing_locations(ast.Module(body=[synth], type_ignores=[]))
    synth.lineno = g.lineno
    srow = U.RecInfo("entry", "srow", "sr_")
    srow.fields = [("checksum", ("list", "int"), True), ("version", ("opt", "int"), True), ("size", "int", True),
                   ("hash_info", "pydict", True)]
    u.recs["srow"] = srow
    u.recs["token"] = U.RecInfo("info", "token", "t_")
    meta_t, hi_t = ("rec", "meta"), ("rec", "hashinfo")
    u.extern["Meta.from_info"] = ("Meta_from_info", [("rec", "token")], meta_t)
    u.extern["HashInfo.from_dict"] = ("HashInfo_from_dict", ["pydict"], hi_t)
    u.funcs["_set_meta_size"] = ("meta_set_size", [("m", meta_t), ("v", ("opt", "int"))], meta_t)
    u.funcs["_set_hash_info_name"] = ("hashinfo_set_name", [("h", hi_t), ("v", ("opt", "str"))], hi_t)
    u.funcs["_mk_hit"] = ("pair", [("m", meta_t), ("h", hi_t)], ("prod", meta_t, hi_t))
    u.out.append("(* the typed image of json_loads(raw): checksum as the list State_checksum compares with *)\n"
                 "Record srow := mk_srow { sr_checksum : list N; sr_version : option N; sr_size : N; sr_hash_info : pydict }.\n")
    u.func(mod, "_get", "State__get",
           [("entry", ("opt", ("rec", "srow"))), ("info", ("rec", "token"))],
           ("opt", ("prod", meta_t, hi_t)))

    # ---- the non-local bypass ----------------------------------------------------------------
    guarded = []
    for m in ("get", "get_many", "save", "save_many"):
        fm = u.find_func(tree, f"State.{m}")
        u.note(fm)
        b = _body(fm)
        if "fs" not in [a.arg for a in fm.args.args]:
            raise Unsupported(f"State.{m}: no parameter fs")
        s0 = b[0] if b else None
        ok = (isinstance(s0, ast.If) and ast.unparse(s0.test) == "not isinstance(fs, LocalFileSystem)"
              and not s0.orelse and s0.body and isinstance(s0.body[-1], ast.Return)
              and ast.unparse(s0.body[-1]) in ("return", "return (None, None)", "return None"))
        if ok and len(s0.body) > 1:
            ok = [ast.unparse(x) for x in s0.body[:-1]] == ["yield from zip_longest(items, [], [])"]
        if not ok:
            raise Unsupported(f"State.{m} does not start with the non-local bypass")
        guarded.append(m)
    u.out.append(f"(* {rel}: methods whose first statement is `if not isinstance(fs, LocalFileSystem): return <nothing>` *)\n"
                 f"Definition State_nonlocal_guarded : list (list N) := [{'; '.join(lit(x) for x in guarded)}].\n")

    # ---- HashesCache.SQLITE_MAX_VARIABLE_NUMBER, get_many over batched --------------------------
    tc, relc = u.load("hashfile/cache.py")
    u.cur_rel = relc
    hc = next((n for n in tc.body if isinstance(n, ast.ClassDef) and n.name == "HashesCache"), None)
    if hc is None:
        raise Unsupported("class HashesCache not found")
    mx = None
    for s in hc.body:
        if isinstance(s, ast.AnnAssign) and ast.unparse(s.target) == "SQLITE_MAX_VARIABLE_NUMBER":
            if not (isinstance(s.value, ast.Constant) and isinstance(s.value.value, int) and s.value.value >= 1):
                raise Unsupported("SQLITE_MAX_VARIABLE_NUMBER is not a positive integer literal")
            mx = s.value.value
            u.note(s)
    if mx is None:
        raise Unsupported("HashesCache.SQLITE_MAX_VARIABLE_NUMBER not found")
    gm = u.find_func(tc, "HashesCache.get_many")
    u.note(gm)
    loops = [s for s in _body(gm) if isinstance(s, ast.For)]
    if len(loops) != 1 or ast.unparse(loops[0].iter) != "batched(keys, self.SQLITE_MAX_VARIABLE_NUMBER)" \
            or ast.unparse(loops[0].target) != "chunk":
        raise Unsupported("HashesCache.get_many does not loop `for chunk in batched(keys, self.SQLITE_MAX_VARIABLE_NUMBER)`")
    inner = [s for s in loops[0].body if isinstance(s, ast.For)]
    if len(inner) != 1 or ast.unparse(inner[0]) != "for key in chunk:\n    yield (key, d.get(key, default))":
        raise Unsupported("HashesCache.get_many does not answer `for key in chunk: yield key, d.get(key, default)`")
    u.out.append(f"(* {relc}: HashesCache.SQLITE_MAX_VARIABLE_NUMBER; get_many answers chunk by chunk, key by key *)\n"
                 f"Definition HashesCache_SQLITE_MAX_VARIABLE_NUMBER : nat := {mx}.\n")

    # ---- compat.batched ------------------------------------------------------------------------
    tb, relb = u.load("compat.py")
    u.cur_rel = relb
    fb = u.find_func(tb, "batched")
    u.note(fb)
    want = ast.parse(BATCHED_EXPECT).body[0]
    if [a.arg for a in fb.args.args] != ["iterable", "n"] or fb.args.kwonlyargs or fb.args.vararg or fb.args.kwarg \
            or [_dump(s) for s in _body(fb)] != [_dump(s) for s in want.body]:
        raise Unsupported("compat.batched is not the recognised islice idiom")
    u.out.append(f"(* {relb}:{fb.lineno} batched: None = ValueError (n < 1) *)\n"
                 "Definition batched_gen {A} (n : nat) (l : list A) : option (list (list A)) :=\n"
                 "  if Nat.ltb n 1 then None else Some (islice_loop (length l) n l).\n")
    return u
