"""Translator unit "objcheckout" (properties C05, C10): hashfile/checkout.py `_remove`, `_relink`,
`_checkout_file` -> coq/theories/Gen/ObjCheckout.v.

The three functions are effectful (fs / cache / link / prompt calls, raise, try/except), i.e. outside
the expression subset of units.FuncTr.  This unit has its own small, fail-closed statement translator:
each function becomes a Gallina function from ABSTRACT ARGUMENTS (the booleans the control flow reads)
to the LIST OF ACTIONS it performs, in source order.  Control flow (if / elif / else, and / or / not
with Python's short-circuit order, early return, raise) is translated generically; every statement and
every atom of a condition must be one of the shapes listed below, anything else raises Unsupported ->
the unit fails closed (a broken translation obligation).

Statements
  if <cond>: ... [else: ...]                  -> if-then-else over the translated condition
  return / return <name>                      -> end of the action list
  raise PromptError(path)                     -> [ARaisePrompt]
  try: fs.remove(path)
  except FileNotFoundError: pass              -> ARemove  (exactly this shape)
  msg = <f-string mentioning {path}>          -> nothing (the prompt text)
  <name> = <pure expr>                        -> a let binding (pure atoms below)
  if c: v = e1 else: v = e2                   -> v bound to (if c then e1 else e2)
  assert <anything about change.new.oid>      -> nothing
  _remove(path, fs, X, force=force, prompt=prompt)          -> AGuard src(X)
  link(cache, <cache path>, fs, path)                       -> ALink
  cache.protect(<cache path>) / cache.unprotect(path)       -> AProtect / AUnprotect
  _relink(link, cache, cache_path, fs, path, X, force=force, prompt=prompt) -> ARelink src(X)
  where src(X): in_cache (own parameter) -> GArg, change.old.in_cache -> GOld,
                change.new.in_cache -> GNew, False -> GFalse, True -> GTrue
Condition atoms (each reads one abstract argument)
  force, in_cache, relink                     -> the parameter
  fs.exists(path)                             -> AExists emitted, then the oracle `ex`
  prompt is None / prompt(msg)                -> `answer : option bool` (APrompt emitted before the answer is read)
  change.old.oid                              -> has_old        (HashInfo.__bool__ = bool(value))
  old_meta is None                            -> meta_none      (old_meta = change.old.meta)
  fs.iscopy(path)                             -> iscopy
  old_meta.is_link / old_meta.nlink == 1      -> is_link / nlink1
  change.new.oid == change.old.oid            -> same_oid
  cache.cache_types[0] == 'copy'              -> cache_is_copy
"""

from __future__ import annotations

import ast

RUNTIME = '''(* ---- runtime of this unit (fixed text) ------------------------------------------------------ *)
(* where the in_cache argument of a guarded removal comes from *)
Inductive gsrc := GArg | GOld | GNew | GFalse | GTrue.
Inductive oc_act :=
| AExists                 (* fs.exists(path) *)
| APrompt                 (* prompt(msg) *)
| ARaisePrompt            (* raise PromptError(path) *)
| ARemove                 (* fs.remove(path), FileNotFoundError swallowed *)
| AGuard (s : gsrc)       (* _remove(path, fs, <s>, force=force, prompt=prompt) *)
| ALink                   (* link(cache, cache_path, fs, path) *)
| AProtect                (* cache.protect(cache_path) *)
| AUnprotect              (* cache.unprotect(path) *)
| ARelink (s : gsrc).     (* _relink(..., <s>, force=force, prompt=prompt) *)
'''


def _u(n):
    return ast.unparse(n)


class Tr:
    def __init__(self, U, fname, params, kind):
        self.U = U
        self.fname = fname
        self.params = params          # python parameter names usable as boolean atoms
        self.kind = kind              # "remove" | "relink" | "checkout_file"
        self.env: dict[str, str] = {}  # local boolean variables -> Gallina
        self.alias: dict[str, str] = {}  # local names -> source text they stand for

    def bad(self, what, node=None):
        raise self.U.Unsupported(f"{self.fname}: {what}" + (f": `{_u(node)}`" if node is not None else ""))

    # ---- pure boolean expressions (assignment right-hand sides, parts of conditions)
    def pure(self, e):
        t = _u(e)
        if isinstance(e, ast.Name):
            if e.id in self.env:
                return self.env[e.id]
            if e.id in self.params:
                return e.id
            self.bad("unknown name in a condition", e)
        if isinstance(e, ast.Constant) and isinstance(e.value, bool):
            return "true" if e.value else "false"
        if isinstance(e, ast.UnaryOp) and isinstance(e.op, ast.Not):
            return f"(negb {self.pure(e.operand)})"
        if isinstance(e, ast.BoolOp):
            op = "&&" if isinstance(e.op, ast.And) else "||"
            return "(" + f" {op} ".join(self.pure(v) for v in e.values) + ")%bool"
        t = self.expand(t)
        table = {
            "change.old.oid": "has_old",
            "change.old.meta is None": "meta_none",
            "fs.iscopy(path)": "iscopy",
            "change.old.meta.is_link": "is_link",
            "change.old.meta.nlink == 1": "nlink1",
            "change.new.oid == change.old.oid": "same_oid",
            "change.old.oid == change.new.oid": "same_oid",
            "cache.cache_types[0] == 'copy'": "cache_is_copy",
        }
        if self.kind == "checkout_file" and t in table:
            return table[t]
        self.bad("condition atom outside the subset", e)

    def expand(self, text):
        for k, v in self.alias.items():
            if text == k or text.startswith(k + ".") or text.startswith(k + " "):
                return v + text[len(k):]
        return text

    # ---- conditions with effects, short-circuit order: returns Gallina `list oc_act`
    def cond(self, e, kt, kf):
        if isinstance(e, ast.UnaryOp) and isinstance(e.op, ast.Not):
            return self.cond(e.operand, kf, kt)
        if isinstance(e, ast.BoolOp) and isinstance(e.op, ast.And):
            out = kt
            for v in reversed(e.values):
                out = self.cond(v, out, kf)
            return out
        if isinstance(e, ast.BoolOp) and isinstance(e.op, ast.Or):
            out = kf
            for v in reversed(e.values):
                out = self.cond(v, kt, out)
            return out
        t = _u(e)
        if self.kind == "remove":
            if t == "fs.exists(path)":
                return f"(AExists :: (if ex then {kt} else {kf}))"
            if t == "prompt is None":
                return f"(match answer with None => {kt} | Some _ => {kf} end)"
            if t == "prompt(msg)":
                return f"(match answer with Some a => APrompt :: (if a then {kt} else {kf}) | None => {kf} end)"
        return f"(if {self.pure(e)} then {kt} else {kf})"

    def src(self, e):
        t = _u(e)
        m = {"change.old.in_cache": "GOld", "change.new.in_cache": "GNew", "False": "GFalse", "True": "GTrue"}
        if isinstance(e, ast.Name) and e.id == "in_cache" and "in_cache" in self.params:
            return "GArg"
        if t in m:
            return m[t]
        self.bad("in_cache argument outside the subset", e)

    # ---- statements; `rest` = the statements that follow
    def stmts(self, body, rest_code="[]"):
        if not body:
            return rest_code
        s, tail = body[0], body[1:]
        if isinstance(s, ast.Expr) and isinstance(s.value, ast.Constant) and isinstance(s.value.value, str):
            return self.stmts(tail, rest_code)                         # docstring
        if isinstance(s, ast.Return):
            if s.value is not None and not isinstance(s.value, ast.Name):
                self.bad("return of a non-name", s)
            return "[]"
        if isinstance(s, ast.Raise):
            if _u(s) != "raise PromptError(path)":
                self.bad("raise outside the subset", s)
            return "[ARaisePrompt]"
        if isinstance(s, ast.Assert):
            if not _u(s.test).startswith("change.new.oid"):
                self.bad("assert outside the subset", s)
            return self.stmts(tail, rest_code)
        if isinstance(s, ast.Try):
            if not (len(s.body) == 1 and _u(s.body[0]) == "fs.remove(path)" and len(s.handlers) == 1
                    and _u(s.handlers[0].type) == "FileNotFoundError" and [_u(x) for x in s.handlers[0].body] == ["pass"]
                    and not s.orelse and not s.finalbody):
                self.bad("try statement is not `try: fs.remove(path) except FileNotFoundError: pass`", s)
            return f"(ARemove :: {self.stmts(tail, rest_code)})"
        if isinstance(s, ast.Assign) and len(s.targets) == 1 and isinstance(s.targets[0], ast.Name):
            name = s.targets[0].id
            if name == "msg":
                if not (isinstance(s.value, ast.JoinedStr) and any(
                        isinstance(v, ast.FormattedValue) and _u(v.value) == "path" for v in s.value.values)):
                    self.bad("msg is not an f-string that names {path}", s)
                return self.stmts(tail, rest_code)
            if name == "cache_path":
                if _u(s.value) != "cache.oid_to_path(change.new.oid.value)":
                    self.bad("cache_path is not the cache path of the NEW oid", s)
                return self.stmts(tail, rest_code)
            if name == "old_meta":
                if _u(s.value) != "change.old.meta":
                    self.bad("old_meta is not change.old.meta", s)
                self.alias["old_meta"] = "change.old.meta"
                return self.stmts(tail, rest_code)
            if name == "modified":
                if not (isinstance(s.value, ast.Constant) and isinstance(s.value.value, bool)):
                    self.bad("modified is not assigned a constant", s)
                return self.stmts(tail, rest_code)
            saved = dict(self.env)
            self.env[name] = self.pure(s.value)
            code = self.stmts(tail, rest_code)
            self.env = saved
            return code
        if isinstance(s, ast.If):
            # `if c: v = e1 else: v = e2`  ->  a binding
            if (len(s.body) == 1 and len(s.orelse) == 1 and isinstance(s.body[0], ast.Assign) and isinstance(s.orelse[0], ast.Assign)
                    and _u(s.body[0].targets[0]) == _u(s.orelse[0].targets[0]) and isinstance(s.body[0].targets[0], ast.Name)
                    and s.body[0].targets[0].id not in ("modified",)):
                name = s.body[0].targets[0].id
                c = self.pure_cond(s.test)
                saved = dict(self.env)
                self.env[name] = f"(if {c} then {self.pure(s.body[0].value)} else {self.pure(s.orelse[0].value)})"
                code = self.stmts(tail, rest_code)
                self.env = saved
                return code
            kt = self.stmts(list(s.body) + list(tail), rest_code)
            kf = self.stmts(list(s.orelse) + list(tail), rest_code)
            return self.cond(s.test, kt, kf)
        if isinstance(s, ast.Expr) and isinstance(s.value, ast.Call):
            c = s.value
            f = _u(c.func)
            args = [_u(a) for a in c.args]
            kws = {k.arg: _u(k.value) for k in c.keywords}
            k = self.stmts(tail, rest_code)
            if f == "_remove":
                if not (len(c.args) == 3 and args[:2] == ["path", "fs"] and kws == {"force": "force", "prompt": "prompt"}):
                    self.bad("_remove call outside the subset", s)
                return f"(AGuard {self.src(c.args[2])} :: {k})"
            if f == "_relink":
                if not (len(c.args) == 6 and args[:5] == ["link", "cache", "cache_path", "fs", "path"]
                        and kws == {"force": "force", "prompt": "prompt"}):
                    self.bad("_relink call outside the subset", s)
                return f"(ARelink {self.src(c.args[5])} :: {k})"
            if f == "link":
                if not (args in (["cache", "cache_path", "fs", "path"], ["cache", "cache_info", "fs", "path"]) and not kws):
                    self.bad("link call outside the subset", s)
                return f"(ALink :: {k})"
            if f == "cache.protect" and args in (["cache_info"], ["cache_path"]) and not kws:
                return f"(AProtect :: {k})"
            if f == "cache.unprotect" and args == ["path"] and not kws:
                return f"(AUnprotect :: {k})"
            self.bad("call outside the subset", s)
        self.bad("statement outside the subset", s)

    def pure_cond(self, e):
        t = self.expand(_u(e))
        if self.kind == "checkout_file" and t == "change.old.meta is None":
            return "meta_none"
        return self.pure(e)


def _sig(U, f, want):
    got = [a.arg for a in f.args.args]
    if got != want or f.args.vararg or f.args.kwarg or f.args.kwonlyargs:
        raise U.Unsupported(f"{f.name}: signature {got} is not {want}")


def unit_objcheckout(u):
    import units as U

    tree, rel = u.load("hashfile/checkout.py")
    u.cur_rel = rel
    u.out.append(RUNTIME)

    f = u.find_func(tree, "_remove")
    u.note(f)
    _sig(U, f, ["path", "fs", "in_cache", "force", "prompt"])
    code = Tr(U, "_remove", ["force", "in_cache"], "remove").stmts(list(f.body))
    u.out.append(f"(* hashfile/checkout.py:{f.lineno} _remove *)\n"
                 "Definition gen_remove (force in_cache ex : bool) (answer : option bool) : list oc_act :=\n"
                 f"  {code}.\n")

    f = u.find_func(tree, "_relink")
    u.note(f)
    _sig(U, f, ["link", "cache", "cache_info", "fs", "path", "in_cache", "force", "prompt"])
    code = Tr(U, "_relink", ["in_cache"], "relink").stmts(list(f.body))
    u.out.append(f"(* hashfile/checkout.py:{f.lineno} _relink : GArg stands for its own in_cache parameter *)\n"
                 f"Definition gen_relink : list oc_act :=\n  {code}.\n")

    f = u.find_func(tree, "_checkout_file")
    u.note(f)
    _sig(U, f, ["link", "path", "fs", "change", "cache", "force", "relink", "state", "prompt"])
    code = Tr(U, "_checkout_file", ["relink"], "checkout_file").stmts(list(f.body))
    u.out.append(f"(* hashfile/checkout.py:{f.lineno} _checkout_file *)\n"
                 "Definition gen_checkout_file (has_old relink meta_none iscopy is_link nlink1 same_oid cache_is_copy : bool)\n"
                 f"  : list oc_act :=\n  {code}.\n")
    # ---- the two loops of _checkout: which guard the deletions go through, which exceptions the per-file
    #      loop catches (everything else - PromptError in particular - aborts the loop)
    f = u.find_func(tree, "_checkout")
    u.note(f)
    loops = [s for s in f.body if isinstance(s, ast.For)]
    if len(loops) != 2:
        raise U.Unsupported(f"_checkout: {len(loops)} top-level for loops, expected 2 (deletions; additions + modifications)")
    dl, fl = loops
    # fix 38c4abf: the root entry is removed last (`sorted(diff.deleted, key=lambda change: change.old.key == ROOT)`)
    if _u(dl.iter) not in ("sorted(diff.deleted, key=lambda change: change.old.key == ROOT)",) or dl.orelse:
        raise U.Unsupported(f"_checkout: first loop iterates `{_u(dl.iter)}`, not diff.deleted with the root last")
    calls = [x for x in dl.body if isinstance(x, ast.Expr) and isinstance(x.value, ast.Call)]
    rest = [x for x in dl.body if x not in calls]
    if not (len(calls) == 1 and _u(calls[0].value.func) == "_remove" and len(calls[0].value.args) == 3
            and [_u(a) for a in calls[0].value.args[:2]] == ["entry_path", "fs"]
            and {k.arg: _u(k.value) for k in calls[0].value.keywords} == {"force": "force", "prompt": "prompt"}
            and all(isinstance(x, ast.Assign) and _u(x.targets[0]) == "entry_path" for x in rest)):
        raise U.Unsupported("_checkout: the deletion loop is not `entry_path = ...; _remove(entry_path, fs, X, force=force, prompt=prompt)`")
    dsrc = Tr(U, "_checkout", [], "loop").src(calls[0].value.args[2])
    if _u(fl.iter) != "chain(diff.added, diff.modified)" or fl.orelse:
        raise U.Unsupported(f"_checkout: second loop iterates `{_u(fl.iter)}`")
    tries = [x for x in ast.walk(fl) if isinstance(x, ast.Try)]
    if len(tries) != 1:
        raise U.Unsupported(f"_checkout: {len(tries)} try statements in the per-file loop, expected 1")
    t = tries[0]
    if not (len(t.body) == 1 and isinstance(t.body[0], ast.Expr) and isinstance(t.body[0].value, ast.Call)
            and _u(t.body[0].value.func) == "_checkout_file" and not t.finalbody):
        raise U.Unsupported("_checkout: the try of the per-file loop does not wrap exactly the _checkout_file call")
    caught = []
    for h in t.handlers:
        if h.type is None:
            caught.append("*")
        elif isinstance(h.type, ast.Tuple):
            caught.extend(_u(e) for e in h.type.elts)
        else:
            caught.append(_u(h.type))
    u.out.append("(* the deletion loop handles the root entry after every other deleted entry *)\n"
                 "Definition gen_delete_root_last : bool := true.\n")
    u.out.append(f"(* hashfile/checkout.py:{f.lineno} _checkout: the in_cache argument of the guarded removal of a deleted entry *)\n"
                 f"Definition gen_delete_guard : gsrc := {dsrc}.\n"
                 "(* ... and the exception classes the per-file loop catches around _checkout_file (names as text) *)\n"
                 "Definition gen_file_loop_catches : list (list N) := ["
                 + "; ".join("[" + ";".join(str(ord(ch)) for ch in nm) + "]" for nm in caught) + "].\n")
    return u
