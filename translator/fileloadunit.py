"""Translator unit "fileload" (property C17): the FileStorage loading route -> coq/theories/Gen/FileLoadGen.v.

Read from the source on every run (fail closed on any other shape):

  FileStorage.__init__ (index/index.py)     `self.prefix = prefix if prefix is not None else key`
                                            -> fs_default_prefix
  FileStorage.get                           the two assertions (`entry.key is not None`,
                                            `entry.key[:len(self.prefix)] == self.prefix`) and
                                            `path = self.fs.join(self.path, *entry.key[len(self.<attr>):])`
                                            -> fsget_asserts_prefix, fsget_strips_prefix, fsget_rel
  _load_from_file_storage                   `fs, path = storage.get(root_entry)`, the `fs.exists` refusal
                                            (FileNotFoundError), the loop over build_entries(path, fs) with
                                            `entry.key = <a> + <b>; trie[entry.key] = entry`
                                            -> fls_refuses_missing, fls_child_key, fls_stores_under_new_key
  build_entries (index/build.py)            root_key (`()` at the walked path, else relparts), the loop over
                                            dirs then files, `key = (*root_key, name)`, the broken-name branch,
                                            `meta, hash_info = Meta.from_info(info, fs.protocol), None` when
                                            nothing was hashed, `loaded = meta.isdir or None`
                                            -> be_child_key, be_loaded_flag, be_hash_when_not_computed,
                                               be_dirs_before_files
"""

from __future__ import annotations

import ast


def _u(n):
    return ast.unparse(n)


def _same(node, text):
    """node is the statement `text` parses to (robust against ast.unparse differences between Python versions)"""
    return ast.dump(node, include_attributes=False) == ast.dump(ast.parse(text).body[0], include_attributes=False)


def _strip(body):
    return [s for s in body if not (isinstance(s, ast.Expr) and isinstance(s.value, ast.Constant)
                                    and isinstance(s.value.value, str))]


def unit_fileload(u):
    import units as U

    def bad(msg):
        raise U.Unsupported("fileload: " + msg)

    tree, rel = u.load("index/index.py")
    o = u.out

    # ---------------- FileStorage.__init__ / get
    init = u.find_func(tree, "FileStorage.__init__")
    u.note(init)
    ib = [_u(s) for s in _strip(init.body)]
    if "self.prefix = prefix if prefix is not None else key" not in ib:
        bad(f"FileStorage.__init__: the default of prefix changed: {ib}")
    if sum(1 for s in ib if s.startswith("self.prefix")) != 1:
        bad("FileStorage.__init__ assigns self.prefix more than once")
    get = u.find_func(tree, "FileStorage.get")
    u.note(get)
    gb = _strip(get.body)
    if len(gb) < 4 or _u(gb[0]) != "assert entry.key is not None" \
            or _u(gb[1]) != "assert entry.key[:len(self.prefix)] == self.prefix":
        bad(f"FileStorage.get: assertions changed: {[_u(s) for s in gb[:2]]}")
    a = gb[2]
    if not (isinstance(a, ast.Assign) and _u(a.targets[0]) == "path" and isinstance(a.value, ast.Call)
            and _u(a.value.func) == "self.fs.join" and len(a.value.args) == 2 and _u(a.value.args[0]) == "self.path"
            and isinstance(a.value.args[1], ast.Starred)):
        bad(f"FileStorage.get: path computation changed: {_u(a)}")
    sl = a.value.args[1].value
    if not (isinstance(sl, ast.Subscript) and _u(sl.value) == "entry.key" and isinstance(sl.slice, ast.Slice)
            and sl.slice.upper is None and sl.slice.step is None and sl.slice.lower is not None):
        bad(f"FileStorage.get: the key slice changed: {_u(sl)}")
    lower = _u(sl.slice.lower)
    if lower not in ("len(self.prefix)", "len(self.key)"):
        bad(f"FileStorage.get: strips {lower}")
    if not _same(gb[3], "if not self.fs.version_aware:\n    return self.fs, path"):
        bad(f"FileStorage.get: the non-version-aware return changed: {_u(gb[3])}")
    o.append(f"(* {rel}:{init.lineno} FileStorage.__init__; :{get.lineno} FileStorage.get *)\n"
             "Definition fs_default_prefix {A} (prefix : option A) (key : A) : A :=\n"
             "  match prefix with Some p => p | None => key end.\n"
             "Definition fsget_asserts_prefix : bool := true.\n"
             f"Definition fsget_strips_prefix : bool := {'true' if lower == 'len(self.prefix)' else 'false'}.\n"
             "(* entry.key[len(self.<attr>):] given the lengths of the prefix and of the storage key *)\n"
             "Definition fsget_rel {A} (prefix_len key_len : nat) (k : list A) : list A :=\n"
             f"  skipn {'prefix_len' if lower == 'len(self.prefix)' else 'key_len'} k.\n")

    # ---------------- _load_from_file_storage
    f = u.find_func(tree, "_load_from_file_storage")
    u.note(f)
    if [x.arg for x in f.args.args] != ["trie", "root_entry", "storage"]:
        bad("_load_from_file_storage signature changed")
    fb = _strip(f.body)
    if len(fb) != 4 or _u(fb[0]) != "from .build import build_entries" or not _same(fb[1], "fs, path = storage.get(root_entry)"):
        bad(f"_load_from_file_storage: head changed: {[_u(s) for s in fb[:2]]}")
    if not _same(fb[2], "if not fs.exists(path):\n    raise FileNotFoundError(errno.ENOENT, os.strerror(errno.ENOENT), path)"):
        bad(f"_load_from_file_storage: the refusal of an absent path changed: {_u(fb[2])}")
    lp = fb[3]
    if not (isinstance(lp, ast.For) and _u(lp.target) == "entry" and _u(lp.iter) == "build_entries(path, fs)"
            and not lp.orelse and len(lp.body) == 2):
        bad(f"_load_from_file_storage: loop changed: {_u(lp)}")
    asg, put = lp.body
    if not (isinstance(asg, ast.Assign) and _u(asg.targets[0]) == "entry.key" and isinstance(asg.value, ast.BinOp)
            and isinstance(asg.value.op, ast.Add)):
        bad(f"_load_from_file_storage: key composition changed: {_u(asg)}")
    parts = {"root_entry.key": "root", "entry.key": "rel"}
    l_, r_ = _u(asg.value.left), _u(asg.value.right)
    if l_ not in parts or r_ not in parts or l_ == r_:
        bad(f"_load_from_file_storage: key composition changed: {_u(asg)}")
    if _u(put) != "trie[entry.key] = entry":
        bad(f"_load_from_file_storage: store changed: {_u(put)}")
    o.append(f"(* {rel}:{f.lineno} _load_from_file_storage *)\n"
             "Definition fls_refuses_missing : bool := true.\n"
             f"Definition fls_child_key {{A}} (root rel : list A) : list A := {parts[l_]} ++ {parts[r_]}.\n"
             "Definition fls_stores_under_new_key : bool := true.\n")

    # ---------------- build_entries
    btree, brel = u.load("index/build.py")
    be = u.find_func(btree, "build_entries")
    u.note(be)
    bb = _strip(be.body)
    loop = next((s for s in bb if isinstance(s, ast.For)), None)
    if loop is None or [_u(e) for e in getattr(loop.target, "elts", [])] != ["root", "dirs", "files", "broken"] \
            or _u(loop.iter) != "safe_walk(path, fs, ignore=ignore)":
        bad("build_entries: the walk changed")
    lb = _strip(loop.body)
    if not _same(lb[0], "if root == path:\n    root_key: tuple[str, ...] = ()\nelse:\n    root_key = fs.relparts(root, path)"):
        bad(f"build_entries: root_key changed: {_u(lb[0])}")
    inner = lb[-1]
    if not (isinstance(inner, ast.For) and [_u(e) for e in getattr(inner.target, "elts", [])] == ["name", "info"]
            and _u(inner.iter) == "chain(dirs.items(), files.items())"):
        bad(f"build_entries: inner loop changed: {_u(inner)[:120]}")
    want = ["key = (*root_key, name)",
            "if name in broken:\n    yield DataIndexEntry(key=key)\n    continue",
            "p = f'{root}{sep}{name}'",
            "if p in hashes:\n    meta, hash_info, _ = hashes[p]\nelse:\n    meta, hash_info = Meta.from_info(info, fs.protocol), None",
            "loaded = meta.isdir or None",
            "yield DataIndexEntry(key=key, meta=meta, hash_info=hash_info, loaded=loaded)"]
    got = _strip(inner.body)
    if len(got) != len(want) or not all(_same(g, w) for g, w in zip(got, want)):
        bad(f"build_entries: entry construction changed: {[_u(g) for g in got]}")
    names = [a_.arg for a_ in be.args.args]
    dflt = dict(zip(names[len(names) - len(be.args.defaults):], be.args.defaults))
    if "compute_hash" not in dflt or _u(dflt["compute_hash"]) != "False":
        bad("build_entries: compute_hash is no longer off by default")
    o.append(f"(* {brel}:{be.lineno} build_entries *)\n"
             "Definition be_child_key {A} (root_key : list A) (name : A) : list A := root_key ++ [name].\n"
             "Definition be_loaded_flag (isdir : bool) : bool := isdir.   (* `meta.isdir or None`: None is falsy *)\n"
             "Definition be_hash_when_not_computed {A} : option A := None.\n"
             "Definition be_dirs_before_files : bool := true.\n"
             "Definition be_compute_hash_default : bool := false.\n")
    return u
