"""Translator unit "storagemap" (property C18): index/index.py StorageMapping.__getitem__ and the
attrs class StorageInfo -> coq/theories/Gen/StorageMap.v.

`__getitem__` is outside the statement subset of units.FuncTr (a loop that appends to a list, a
`sorted` with a lambda key, a loop with guarded re-assignments and `break`), so it has its own
fail-closed shape check: the body must consist of *exactly* the statement shapes below (compared on
the unparsed AST); what flows from the source into the Gallina text is

  * StorageInfo: the field names (each `Optional[Storage] = None`), in definition order;
  * the collection loop: the comparison that skips a prefix (`len(prefix) > len(key)`), the slice
    equality that admits it;
  * the sort: its key (`len(entry[0])`) and the constant `reverse` (True -> longest first,
    False -> shortest first; the emitted insertion sort is stable, like `sorted`);
  * the selection loop: which accumulator is initialised to None, the list of guarded assignments
    `if X is None: X = storage.<field>` in source order, the variables of the `break` test (or its
    absence);
  * the returned StorageInfo(field=variable, ...) mapping;
  * `raise StorageKeyError(key)` when nothing matched.

Anything else raises Unsupported -> the unit fails closed (a broken translation obligation).

Python truthiness: `if not storages` is emptiness of a list; `if data and cache and remote` tests
Optional[Storage] values - Storage defines neither __bool__ nor __len__ (checked on the class
bodies), so an object is true and the test is "is not None".
"""

from __future__ import annotations

import ast

RUNTIME = '''(* ---- runtime of this unit (fixed text) ------------------------------------------------------ *)
Definition name := list N.
Definition key := list name.                 (* DataIndexKey = tuple[str, ...] *)
Definition sid := N.                         (* a Storage object, by identity *)

Fixpoint key_eqb (a b : key) : bool :=
  match a, b with
  | [], [] => true
  | x :: a', y :: b' => list_N_eqb x y && key_eqb a' b'
  | _, _ => false
  end.

(* `if X is None: X = new` *)
Definition pick (cur new : option sid) : option sid :=
  match cur with None => new | Some _ => cur end.
(* truth value of an Optional[Storage] *)
Definition is_some (o : option sid) : bool := match o with Some _ => true | None => false end.
'''


def _u(node):
    return ast.unparse(node)


def _fields(U, tree):
    cls = next((n for n in tree.body if isinstance(n, ast.ClassDef) and n.name == "StorageInfo"), None)
    if cls is None:
        raise U.Unsupported("class StorageInfo not found")
    if [_u(d) for d in cls.decorator_list] != ["attrs.define"]:
        raise U.Unsupported(f"StorageInfo: decorators {[_u(d) for d in cls.decorator_list]}")
    names = []
    for s in cls.body:
        if isinstance(s, ast.Expr) and isinstance(s.value, ast.Constant) and isinstance(s.value.value, str):
            continue  # docstring
        if not (isinstance(s, ast.AnnAssign) and isinstance(s.target, ast.Name)
                and _u(s.annotation) == "Optional[Storage]" and s.value is not None and _u(s.value) == "None"):
            raise U.Unsupported(f"StorageInfo: unexpected member `{_u(s)}`")
        names.append(s.target.id)
    if sorted(names) != ["cache", "data", "remote"]:
        raise U.Unsupported(f"StorageInfo: fields {names}")
    return cls, names


def _storage_truthy(U, tree):
    """Storage / ObjectStorage / FileStorage define neither __bool__ nor __len__"""
    nodes = []
    for cname in ("Storage", "ObjectStorage", "FileStorage"):
        cls = next((n for n in tree.body if isinstance(n, ast.ClassDef) and n.name == cname), None)
        if cls is None:
            raise U.Unsupported(f"class {cname} not found")
        for s in cls.body:
            if isinstance(s, ast.FunctionDef) and s.name in ("__bool__", "__len__"):
                raise U.Unsupported(f"{cname} defines {s.name}: an Optional[Storage] test is no longer `is not None`")
        nodes.append([s.name for s in cls.body if isinstance(s, ast.FunctionDef)])
    return nodes


def unit_storagemap(u):
    import units as U

    tree, rel = u.load("index/index.py")
    u.cur_rel = rel
    cls, fields = _fields(U, tree)
    u.note(cls)
    for names in _storage_truthy(U, tree):
        u.hash.update(repr(names).encode())
    f = u.find_func(tree, "StorageMapping.__getitem__")
    u.note(f)
    init = u.find_func(tree, "StorageMapping.__init__")
    u.note(init)
    if [_u(s) for s in init.body] != ["self._map = dict(*args, **kwargs)"]:
        raise U.Unsupported("StorageMapping.__init__: self._map is not a dict")
    if [a.arg for a in f.args.args] != ["self", "key"] or f.args.vararg or f.args.kwarg or f.args.kwonlyargs:
        raise U.Unsupported("__getitem__: signature is not (self, key)")
    body = [s for s in f.body if not (isinstance(s, ast.Expr) and isinstance(s.value, ast.Constant))]

    def want(i, text, what):
        if i >= len(body) or _u(body[i]) != text:
            got = _u(body[i]) if i < len(body) else "<end>"
            raise U.Unsupported(f"__getitem__: statement {i} is not {what}: `{got}`")

    # 0: storages = []
    want(0, "storages = []", "`storages = []`")
    # 1: the collection loop
    loop = body[1] if len(body) > 1 else None
    if not (isinstance(loop, ast.For) and _u(loop.target) == "(prefix, storage)"
            and _u(loop.iter) == "self._map.items()" and not loop.orelse and len(loop.body) == 2):
        raise U.Unsupported("__getitem__: statement 1 is not `for prefix, storage in self._map.items():` with two tests")
    skip, admit = loop.body
    if not (isinstance(skip, ast.If) and not skip.orelse and [_u(s) for s in skip.body] == ["continue"]
            and isinstance(skip.test, ast.Compare) and len(skip.test.ops) == 1
            and _u(skip.test.left) == "len(prefix)" and _u(skip.test.comparators[0]) == "len(key)"):
        raise U.Unsupported(f"__getitem__: the length test is not `if len(prefix) <op> len(key): continue`: `{_u(skip)}`")
    op = type(skip.test.ops[0]).__name__
    if op == "Gt":
        skip_coq = "Nat.ltb (length k) (length prefix)"
    elif op == "GtE":
        skip_coq = "Nat.leb (length k) (length prefix)"
    else:
        raise U.Unsupported(f"__getitem__: unsupported comparison {op} in the length test")
    if not (isinstance(admit, ast.If) and not admit.orelse
            and _u(admit.test) == "key[:len(prefix)] == prefix"
            and [_u(s) for s in admit.body] == ["storages.append((prefix, storage))"]):
        raise U.Unsupported(f"__getitem__: the prefix test is not `if key[:len(prefix)] == prefix: storages.append(...)`: `{_u(admit)}`")
    # 2: KeyError
    want(2, "if not storages:\n    raise StorageKeyError(key)", "`if not storages: raise StorageKeyError(key)`")
    # 3: the sort
    srt = body[3] if len(body) > 3 else None
    ok = (isinstance(srt, ast.Assign) and _u(srt.targets[0]) == "storages" and isinstance(srt.value, ast.Call)
          and _u(srt.value.func) == "sorted" and [_u(a) for a in srt.value.args] == ["storages"])
    kws = {k.arg: k.value for k in srt.value.keywords} if ok else {}
    if not ok or set(kws) - {"key", "reverse"} or "key" not in kws \
            or _u(kws["key"]) != "lambda entry: len(entry[0])":
        raise U.Unsupported(f"__getitem__: statement 3 is not `storages = sorted(storages, key=lambda entry: len(entry[0]), reverse=<const>)`")
    rev = kws.get("reverse")
    if rev is None:
        reverse = False
    elif isinstance(rev, ast.Constant) and isinstance(rev.value, bool):
        reverse = rev.value
    else:
        raise U.Unsupported("__getitem__: `reverse` is not a boolean constant")
    # 4..: accumulators initialised to None
    i = 4
    accs = []
    while i < len(body) and isinstance(body[i], ast.Assign) and len(body[i].targets) == 1 \
            and isinstance(body[i].targets[0], ast.Name) and _u(body[i].value) == "None":
        accs.append(body[i].targets[0].id)
        i += 1
    if sorted(accs) != sorted(fields):
        raise U.Unsupported(f"__getitem__: accumulators initialised to None are {accs}, StorageInfo has {fields}")
    # the selection loop
    sel = body[i] if i < len(body) else None
    if not (isinstance(sel, ast.For) and _u(sel.target) == "(_, storage)" and _u(sel.iter) == "storages"
            and not sel.orelse):
        raise U.Unsupported("__getitem__: the selection loop is not `for _, storage in storages:`")
    assigns = []
    brk = None
    for s in sel.body:
        if brk is not None:
            raise U.Unsupported("__getitem__: statements after the `break` test")
        if not (isinstance(s, ast.If) and not s.orelse and len(s.body) == 1):
            raise U.Unsupported(f"__getitem__: unexpected statement in the selection loop: `{_u(s)}`")
        t = s.test
        if isinstance(t, ast.Compare) and len(t.ops) == 1 and isinstance(t.ops[0], ast.Is) \
                and isinstance(t.left, ast.Name) and _u(t.comparators[0]) == "None":
            var = t.left.id
            a = s.body[0]
            if not (isinstance(a, ast.Assign) and _u(a.targets[0]) == var and isinstance(a.value, ast.Attribute)
                    and _u(a.value.value) == "storage" and a.value.attr in fields and var in accs):
                raise U.Unsupported(f"__getitem__: not `if X is None: X = storage.<field>`: `{_u(s)}`")
            assigns.append((var, a.value.attr))
        elif isinstance(t, ast.BoolOp) and isinstance(t.op, ast.And) and all(isinstance(v, ast.Name) for v in t.values) \
                and isinstance(s.body[0], ast.Break):
            brk = [v.id for v in t.values]
            if not set(brk) <= set(accs):
                raise U.Unsupported(f"__getitem__: the break test mentions {brk}")
        else:
            raise U.Unsupported(f"__getitem__: unexpected statement in the selection loop: `{_u(s)}`")
    i += 1
    # return StorageInfo(f=v, ...)
    ret = body[i] if i < len(body) else None
    if not (isinstance(ret, ast.Return) and isinstance(ret.value, ast.Call) and _u(ret.value.func) == "StorageInfo"
            and not ret.value.args and all(isinstance(k.value, ast.Name) for k in ret.value.keywords)):
        raise U.Unsupported("__getitem__: the last statement is not `return StorageInfo(field=variable, ...)`")
    retmap = {k.arg: k.value.id for k in ret.value.keywords}
    if set(retmap) - set(fields) or not set(retmap.values()) <= set(accs):
        raise U.Unsupported(f"__getitem__: returned StorageInfo({retmap})")
    if i + 1 != len(body):
        raise U.Unsupported("__getitem__: statements after the return")

    # ---------------- emission
    o = u.out
    o.append(RUNTIME)
    o.append(f"(* {rel}:{cls.lineno} class StorageInfo: {', '.join(fields)} : Optional[Storage] = None *)\n"
             "Record sinfo := { " + "; ".join(f"si_{n} : option sid" for n in fields) + " }.\n"
             "Definition smap := list (key * sinfo).       (* self._map: dict, insertion order, keys pairwise distinct *)\n")
    o.append(f"(* {rel}:{loop.lineno} the collection loop: not (len(prefix) {'>' if op == 'Gt' else '>='} len(key)) "
             "and key[:len(prefix)] == prefix *)\n"
             "Definition matches (prefix k : key) : bool :=\n"
             f"  negb ({skip_coq}) && key_eqb (firstn (length prefix) k) prefix.\n")
    if reverse:
        cond = "Nat.leb (length (fst y)) (length (fst x))"
        what = "reverse=True: longest prefix first"
    else:
        cond = "Nat.leb (length (fst x)) (length (fst y))"
        what = "reverse=False: shortest prefix first"
    o.append(f"(* {rel}:{srt.lineno} sorted(storages, key=len(entry[0]), {what}); stable: an element stays before\n"
             "   the later elements of equal key (fold_right inserts the later elements first) *)\n"
             "Fixpoint sm_insert (x : key * sinfo) (l : list (key * sinfo)) : list (key * sinfo) :=\n"
             "  match l with\n  | [] => [x]\n"
             f"  | y :: r => if {cond} then x :: l else y :: sm_insert x r\n  end.\n"
             "Definition sm_sort (l : list (key * sinfo)) : list (key * sinfo) := fold_right sm_insert [] l.\n")
    order = ["data", "cache", "remote"]
    mk = "{| " + "; ".join(f"si_{fl} := {retmap[fl]}'" if fl in retmap else f"si_{fl} := None" for fl in fields) + " |}"
    mk0 = "{| " + "; ".join(f"si_{fl} := {retmap[fl]}" if fl in retmap else f"si_{fl} := None" for fl in fields) + " |}"
    lets = []
    cur = {v: v for v in order}
    # sequential re-assignments: each one reads the current value of its variable
    nxt = dict(cur)
    steps = []
    count = {v: 0 for v in order}
    for var, attr in assigns:
        count[var] += 1
        new = var + "'" * count[var]
        steps.append(f"      let {new} := pick {nxt[var]} (si_{attr} storage) in")
        nxt[var] = new
    # normalise the final names to X'
    final = {}
    for v in order:
        final[v] = nxt[v]
    def sub(text):
        for v in order:
            text = text.replace(f"{v}'", "\0" + v)
        for v in order:
            text = text.replace("\0" + v, final[v])
        return text
    res = sub(mk)
    rec_args = " ".join(final[v] for v in order)
    if brk is not None:
        test = " && ".join(f"is_some {final[v]}" for v in brk)
        tail = f"      if {test}\n      then {res}\n      else resolve_loop rest {rec_args}"
    else:
        tail = f"      resolve_loop rest {rec_args}"
    o.append(f"(* {rel}:{sel.lineno} the selection loop: " + "; ".join(f"if {v} is None: {v} = storage.{a}" for v, a in assigns)
             + ("; if " + " and ".join(brk) + ": break" if brk is not None else "") + " *)\n"
             "Fixpoint resolve_loop (l : list (key * sinfo)) (data cache remote : option sid) : sinfo :=\n"
             "  match l with\n"
             f"  | [] => {mk0}\n"
             "  | (_, storage) :: rest =>\n" + "\n".join(steps) + ("\n" if steps else "") + tail + "\n  end.\n")
    o.append(f"(* {rel}:{f.lineno} StorageMapping.__getitem__; None = raise StorageKeyError(key) *)\n"
             "Definition getitem (m : smap) (k : key) : option sinfo :=\n"
             "  match filter (fun ps => matches (fst ps) k) m with\n"
             "  | [] => None\n"
             "  | st => Some (resolve_loop (sm_sort st) None None None)\n"
             "  end.\n")
    return u
