"""Translator unit "tree" (property C03): hashfile/tree.py Tree.add / __iter__ / as_list / as_bytes /
digest / from_list (+ HashInfo.to_dict, HashInfo.__bool__, DEFAULT_ALGORITHM) -> coq/theories/Gen/Tree.v.

These methods are outside the statement subset of units.FuncTr (dict displays with ** merges, a
generator inside `sorted`, attribute stores, in-memory files).  Each has its own fail-closed shape
check: the body must consist of *exactly* the statement shapes below (compared on the unparsed AST).
What flows from the source into the Gallina text - the DECISIONS Model/Listing.v depends on:

  load       the format check `if not isinstance(raw, list)` (the empty list is a listing), the legacy
             hash_name of an md5-dos2unix odb, then from_list(raw, hash_name=hash_name).
  add        `self.__dict__.pop('_trie', None)` is the first statement and unconditional; the stored
             value is the tuple (meta, oid): which parameter lands in which slot.
  __iter__   yields (key, value[0], value[1]) over self._dict.items()  (dict order).
  as_list    the three items of the per-entry dict display, IN SOURCE ORDER (later items overwrite
             earlier ones): `**(meta.to_dict() if with_meta else {})`, `**_hi_to_dict(hi)`,
             `self.PARAM_RELPATH: posixpath.sep.join(parts)`; the two string constants of the
             md5-dos2unix renaming in _hi_to_dict; the value of PARAM_RELPATH; the sort: `sorted(...,
             key=itemgetter(self.PARAM_RELPATH))` - on the BUILT dicts, plain string order.  The joined
             path is used verbatim (any wrapper such as a normalisation is outside the shape).
  as_bytes   json.dumps(self.as_list(with_meta=with_meta), sort_keys=<const>).encode('utf-8');
             the default of with_meta.
  digest     which bytes are hashed: the arguments of the as_bytes() call piped into the file that
             hash_file reads; the suffix appended to the value; the with_meta branch only writes a
             second file and re-points self.path.
  from_list  the separator of relpath.split(...), applied to the popped string verbatim; the two
             string constants of the hash_name -> Meta attribute renaming; `if hash_name:` truthiness.

Anything else raises Unsupported -> the unit fails closed (a broken translation obligation).
Proofs/ListingGenTie.v proves Model/Listing.v equal to the generated definitions; the C03 theorems are
restated over the generated functions in Properties/C03.v.
"""

from __future__ import annotations

import ast


def _u(node):
    return ast.unparse(node)


def _body(f):
    """statements without the docstring"""
    return [s for s in f.body if not (isinstance(s, ast.Expr) and isinstance(s.value, ast.Constant)
                                      and isinstance(s.value.value, str))]


def _cps(text):
    return "[" + "; ".join(str(ord(c)) for c in text) + "]"


def _str_const(U, node, what):
    if not (isinstance(node, ast.Constant) and isinstance(node.value, str)):
        raise U.Unsupported(f"{what}: not a string constant: `{_u(node)}`")
    return node.value


def _args(f):
    a = f.args
    if a.vararg or a.kwarg or a.kwonlyargs or a.posonlyargs:
        return None
    return [x.arg for x in a.args]


def _want(U, where, stmts, i, text):
    got = _u(stmts[i]) if i < len(stmts) else "<end>"
    if got != text:
        raise U.Unsupported(f"{where}: statement {i} is `{got}`, expected `{text}`")


def unit_tree(u):
    import units as U

    # ---------------------------------------------------------------- hash.py, hash_info.py
    t_hash, _ = u.load("hashfile/hash.py")
    dflt = next((s for s in t_hash.body if isinstance(s, ast.Assign) and _u(s.targets[0]) == "DEFAULT_ALGORITHM"), None)
    if dflt is None:
        raise U.Unsupported("hash.py: DEFAULT_ALGORITHM not found")
    u.note(dflt)
    default_alg = _str_const(U, dflt.value, "DEFAULT_ALGORITHM")
    if default_alg != "md5":
        raise U.Unsupported(f"DEFAULT_ALGORITHM is {default_alg!r}: Tree.digest would not name listings by md5")

    t_hi, rel_hi = u.load("hashfile/hash_info.py")
    sfx = next((s for s in t_hi.body if isinstance(s, ast.Assign) and _u(s.targets[0]) == "HASH_DIR_SUFFIX"), None)
    if sfx is None:
        raise U.Unsupported("hash_info.py: HASH_DIR_SUFFIX not found")
    u.note(sfx)
    f_bool = u.find_func(t_hi, "HashInfo.__bool__")
    u.note(f_bool)
    if [_u(s) for s in _body(f_bool)] != ["return bool(self.value)"]:
        raise U.Unsupported("HashInfo.__bool__ is not `return bool(self.value)`")
    f_todict = u.find_func(t_hi, "HashInfo.to_dict")
    u.note(f_todict)
    if [_u(s) for s in _body(f_todict)] != ["if not self.value or not self.name:\n    return {}",
                                            "return {self.name: self.value}"]:
        raise U.Unsupported("HashInfo.to_dict: not `if not self.value or not self.name: return {}; return {self.name: self.value}`")

    # ---------------------------------------------------------------- tree.py
    tree, rel = u.load("hashfile/tree.py")
    u.cur_rel = rel
    cls = next((n for n in tree.body if isinstance(n, ast.ClassDef) and n.name == "Tree"), None)
    if cls is None:
        raise U.Unsupported("class Tree not found")
    pr = next((s for s in cls.body if isinstance(s, ast.AnnAssign) and _u(s.target) == "PARAM_RELPATH"), None)
    if pr is None or pr.value is None:
        raise U.Unsupported("Tree.PARAM_RELPATH not found")
    u.note(pr)
    param_relpath = _str_const(U, pr.value, "Tree.PARAM_RELPATH")
    # the methods whose attributes the shapes below rely on must not be shadowed by extra state
    f_init = u.find_func(tree, "Tree.__init__")
    u.note(f_init)
    init_attrs = sorted(_u(s.target if isinstance(s, ast.AnnAssign) else s.targets[0]) for s in _body(f_init)
                        if isinstance(s, (ast.Assign, ast.AnnAssign)))
    if init_attrs != ["self._dict", "self.fs", "self.hash_info", "self.oid", "self.path"]:
        raise U.Unsupported(f"Tree.__init__ sets {init_attrs}: extra state could influence the listing")
    dict_init = next(s for s in _body(f_init) if isinstance(s, ast.AnnAssign) and _u(s.target) == "self._dict")
    if _u(dict_init.value) != "{}":
        raise U.Unsupported("Tree.__init__: self._dict is not initialised to {}")

    # ---- add
    f_add = u.find_func(tree, "Tree.add")
    u.note(f_add)
    if _args(f_add) != ["self", "key", "meta", "oid"]:
        raise U.Unsupported(f"Tree.add: signature {_args(f_add)}")
    b = _body(f_add)
    if len(b) != 2:
        raise U.Unsupported(f"Tree.add: {len(b)} statements, expected the trie invalidation and the dict store")
    _want(U, "Tree.add", b, 0, "self.__dict__.pop('_trie', None)")
    st = b[1]
    if not (isinstance(st, ast.Assign) and len(st.targets) == 1 and _u(st.targets[0]) == "self._dict[key]"
            and isinstance(st.value, ast.Tuple) and len(st.value.elts) == 2
            and all(isinstance(e, ast.Name) for e in st.value.elts)):
        raise U.Unsupported(f"Tree.add: statement 1 is `{_u(st)}`, expected `self._dict[key] = (<name>, <name>)`")
    slot0, slot1 = (e.id for e in st.value.elts)
    if {slot0, slot1} != {"meta", "oid"}:
        raise U.Unsupported(f"Tree.add stores ({slot0}, {slot1})")
    f_trie = u.find_func(tree, "Tree._trie")
    u.note(f_trie)
    if [_u(d) for d in f_trie.decorator_list] != ["cached_property"] or \
            [_u(s) for s in _body(f_trie)] != ["from pygtrie import Trie", "return Trie(self._dict)"]:
        raise U.Unsupported("Tree._trie is not a cached_property returning Trie(self._dict)")

    # ---- __iter__
    f_iter = u.find_func(tree, "Tree.__iter__")
    u.note(f_iter)
    if [_u(s) for s in _body(f_iter)] != ["yield from ((key, value[0], value[1]) for key, value in self._dict.items())"]:
        raise U.Unsupported("Tree.__iter__ does not yield (key, value[0], value[1]) over self._dict.items()")

    # ---- as_list
    f_al = u.find_func(tree, "Tree.as_list")
    u.note(f_al)
    if _args(f_al) != ["self", "with_meta"] or [_u(d) for d in f_al.args.defaults] != ["False"]:
        raise U.Unsupported("Tree.as_list: signature is not (self, with_meta=False)")
    b = _body(f_al)
    if len(b) != 3:
        raise U.Unsupported(f"Tree.as_list: {len(b)} statements, expected import, _hi_to_dict, return sorted(...)")
    _want(U, "Tree.as_list", b, 0, "from operator import itemgetter")
    h2d = b[1]
    if not (isinstance(h2d, ast.FunctionDef) and h2d.name == "_hi_to_dict" and _args(h2d) == ["hi"]):
        raise U.Unsupported("Tree.as_list: statement 1 is not `def _hi_to_dict(hi)`")
    hb = _body(h2d)
    if len(hb) != 3:
        raise U.Unsupported("_hi_to_dict: expected three statements")
    _want(U, "_hi_to_dict", hb, 0, "if not hi:\n    return {}")
    ren = hb[1]
    if not (isinstance(ren, ast.If) and not ren.orelse and len(ren.body) == 1 and isinstance(ren.test, ast.Compare)
            and len(ren.test.ops) == 1 and isinstance(ren.test.ops[0], ast.Eq) and _u(ren.test.left) == "hi.name"
            and isinstance(ren.body[0], ast.Return) and isinstance(ren.body[0].value, ast.Dict)
            and len(ren.body[0].value.keys) == 1 and _u(ren.body[0].value.values[0]) == "hi.value"):
        raise U.Unsupported(f"_hi_to_dict: statement 1 is not `if hi.name == <str>: return {{<str>: hi.value}}`: `{_u(ren)}`")
    al_from = _str_const(U, ren.test.comparators[0], "_hi_to_dict renaming (from)")
    al_to = _str_const(U, ren.body[0].value.keys[0], "_hi_to_dict renaming (to)")
    _want(U, "_hi_to_dict", hb, 2, "return hi.to_dict()")
    ret = b[2]
    if not (isinstance(ret, ast.Return) and isinstance(ret.value, ast.Call) and _u(ret.value.func) == "sorted"
            and len(ret.value.args) == 1 and isinstance(ret.value.args[0], ast.GeneratorExp)):
        raise U.Unsupported("Tree.as_list: the last statement is not `return sorted(<generator>, key=...)`")
    kws = {k.arg: k.value for k in ret.value.keywords}
    if set(kws) != {"key"} or _u(kws["key"]) != "itemgetter(self.PARAM_RELPATH)":
        raise U.Unsupported(f"Tree.as_list: sorted(...) keywords are `{ {k: _u(v) for k, v in kws.items()} }`, "
                            "expected key=itemgetter(self.PARAM_RELPATH) only")
    gen = ret.value.args[0]
    if not (len(gen.generators) == 1 and _u(gen.generators[0].target) == "(parts, meta, hi)"
            and _u(gen.generators[0].iter) == "self" and not gen.generators[0].ifs and not gen.generators[0].is_async):
        raise U.Unsupported("Tree.as_list: the generator is not `for parts, meta, hi in self`")
    d = gen.elt
    if not (isinstance(d, ast.Dict) and len(d.keys) == 3):
        raise U.Unsupported("Tree.as_list: the element is not a dict display with three items")
    items = []
    for k, v in zip(d.keys, d.values):
        if k is None and _u(v) == "meta.to_dict() if with_meta else {}":
            items.append("meta")
        elif k is None and _u(v) == "_hi_to_dict(hi)":
            items.append("hash")
        elif k is not None and _u(k) == "self.PARAM_RELPATH" and _u(v) == "posixpath.sep.join(parts)":
            items.append("relpath")
        else:
            raise U.Unsupported(f"Tree.as_list: unexpected item `{'**' if k is None else _u(k) + ': '}{_u(v)}` in the per-entry dict")
    if sorted(items) != ["hash", "meta", "relpath"]:
        raise U.Unsupported(f"Tree.as_list: per-entry dict items {items}")

    # ---- as_bytes
    f_ab = u.find_func(tree, "Tree.as_bytes")
    u.note(f_ab)
    if _args(f_ab) != ["self", "with_meta"] or len(f_ab.args.defaults) != 1 \
            or not isinstance(f_ab.args.defaults[0], ast.Constant) or not isinstance(f_ab.args.defaults[0].value, bool):
        raise U.Unsupported("Tree.as_bytes: signature is not (self, with_meta=<bool>)")
    ab_default = f_ab.args.defaults[0].value
    b = _body(f_ab)
    r = b[0] if len(b) == 1 else None
    ok = (isinstance(r, ast.Return) and isinstance(r.value, ast.Call) and isinstance(r.value.func, ast.Attribute)
          and r.value.func.attr == "encode" and [_u(a) for a in r.value.args] == ["'utf-8'"] and not r.value.keywords
          and isinstance(r.value.func.value, ast.Call) and _u(r.value.func.value.func) == "json.dumps"
          and [_u(a) for a in r.value.func.value.args] == ["self.as_list(with_meta=with_meta)"])
    if not ok:
        raise U.Unsupported("Tree.as_bytes: not `return json.dumps(self.as_list(with_meta=with_meta), ...).encode('utf-8')`")
    jk = {k.arg: k.value for k in r.value.func.value.keywords}
    if set(jk) - {"sort_keys"}:
        raise U.Unsupported(f"Tree.as_bytes: json.dumps keywords {sorted(jk)} (the printer of Base/Json.v is the default one)")
    sort_keys = False
    if "sort_keys" in jk:
        if not (isinstance(jk["sort_keys"], ast.Constant) and isinstance(jk["sort_keys"].value, bool)):
            raise U.Unsupported("Tree.as_bytes: sort_keys is not a boolean constant")
        sort_keys = jk["sort_keys"].value

    # ---- digest
    f_dg = u.find_func(tree, "Tree.digest")
    u.note(f_dg)
    if _args(f_dg) != ["self", "with_meta", "name"] or [_u(x) for x in f_dg.args.defaults] != ["False", "DEFAULT_ALGORITHM"]:
        raise U.Unsupported("Tree.digest: signature is not (self, with_meta=False, name=DEFAULT_ALGORITHM)")
    b = _body(f_dg)
    if len(b) != 11:
        raise U.Unsupported(f"Tree.digest: {len(b)} statements, expected 11")
    _want(U, "Tree.digest", b, 0, "from dvc_objects.fs import MemoryFileSystem")
    _want(U, "Tree.digest", b, 1, "from dvc_objects.fs.utils import tmp_fname")
    _want(U, "Tree.digest", b, 2, "memfs = MemoryFileSystem()")
    _want(U, "Tree.digest", b, 3, "path = 'memory://{}'.format(tmp_fname(''))")
    pipe = b[4]
    if not (isinstance(pipe, ast.Expr) and isinstance(pipe.value, ast.Call) and _u(pipe.value.func) == "memfs.pipe_file"
            and len(pipe.value.args) == 2 and _u(pipe.value.args[0]) == "path" and not pipe.value.keywords
            and isinstance(pipe.value.args[1], ast.Call) and _u(pipe.value.args[1].func) == "self.as_bytes"
            and not pipe.value.args[1].args):
        raise U.Unsupported(f"Tree.digest: statement 4 is `{_u(pipe)}`, expected `memfs.pipe_file(path, self.as_bytes(...))`")
    call_kw = {k.arg: k.value for k in pipe.value.args[1].keywords}
    if set(call_kw) - {"with_meta"}:
        raise U.Unsupported("Tree.digest: unexpected arguments of as_bytes")
    if "with_meta" not in call_kw:
        hashed_flag = "true" if ab_default else "false"
        hashed_src = f"as_bytes() [with_meta defaults to {ab_default}]"
    elif isinstance(call_kw["with_meta"], ast.Constant) and isinstance(call_kw["with_meta"].value, bool):
        hashed_flag = "true" if call_kw["with_meta"].value else "false"
        hashed_src = f"as_bytes(with_meta={call_kw['with_meta'].value})"
    elif _u(call_kw["with_meta"]) == "with_meta":
        hashed_flag = "with_meta"
        hashed_src = "as_bytes(with_meta=with_meta)"
    else:
        raise U.Unsupported(f"Tree.digest: as_bytes(with_meta={_u(call_kw['with_meta'])})")
    _want(U, "Tree.digest", b, 5, "_, self.hash_info = hash_file(path, memfs, name)")
    _want(U, "Tree.digest", b, 6, "assert self.hash_info.value")
    _want(U, "Tree.digest", b, 7, "self.fs = memfs")
    _want(U, "Tree.digest", b, 8,
          "if with_meta:\n    self.path = path + '.with_meta'\n    memfs.pipe_file(self.path, self.as_bytes(with_meta=True))\n"
          "else:\n    self.path = path")
    aug = b[9]
    if not (isinstance(aug, ast.AugAssign) and isinstance(aug.op, ast.Add) and _u(aug.target) == "self.hash_info.value"):
        raise U.Unsupported(f"Tree.digest: statement 9 is `{_u(aug)}`, expected `self.hash_info.value += <str>`")
    suffix = _str_const(U, aug.value, "Tree.digest suffix")
    _want(U, "Tree.digest", b, 10, "self.oid = self.hash_info.value")

    # ---- from_list
    f_fl = u.find_func(tree, "Tree.from_list")
    u.note(f_fl)
    if [_u(x) for x in f_fl.decorator_list] != ["classmethod"] or _args(f_fl) != ["cls", "lst", "hash_name"] \
            or [_u(x) for x in f_fl.args.defaults] != ["None"]:
        raise U.Unsupported("Tree.from_list: not a classmethod (cls, lst, hash_name=None)")
    b = _body(f_fl)
    if len(b) != 4:
        raise U.Unsupported(f"Tree.from_list: {len(b)} statements, expected 4")
    _want(U, "Tree.from_list", b, 0, "from dvc_data.hashfile.hash_info import HashInfo")
    _want(U, "Tree.from_list", b, 1, "tree = cls()")
    _want(U, "Tree.from_list", b, 3, "return tree")
    loop = b[2]
    if not (isinstance(loop, ast.For) and _u(loop.target) == "_entry" and _u(loop.iter) == "lst" and not loop.orelse
            and len(loop.body) == 6):
        raise U.Unsupported("Tree.from_list: statement 2 is not `for _entry in lst:` with six statements")
    lb = loop.body
    _want(U, "Tree.from_list loop", lb, 0, "entry = _entry.copy()")
    _want(U, "Tree.from_list loop", lb, 1, "relpath = entry.pop(cls.PARAM_RELPATH)")
    sp = lb[2]
    if not (isinstance(sp, ast.Assign) and _u(sp.targets[0]) == "parts" and isinstance(sp.value, ast.Call)
            and _u(sp.value.func) == "tuple" and len(sp.value.args) == 1 and isinstance(sp.value.args[0], ast.Call)
            and _u(sp.value.args[0].func) == "relpath.split" and len(sp.value.args[0].args) == 1
            and not sp.value.args[0].keywords):
        raise U.Unsupported(f"Tree.from_list: `{_u(sp)}` is not `parts = tuple(relpath.split(<sep>))`")
    sep_node = sp.value.args[0].args[0]
    if _u(sep_node) == "posixpath.sep":
        split_sep = "/"
    else:
        split_sep = _str_const(U, sep_node, "Tree.from_list separator")
        if len(split_sep) != 1:
            raise U.Unsupported("Tree.from_list: the separator is not one character")
    _want(U, "Tree.from_list loop", lb, 3, "meta = Meta.from_dict(entry)")
    br = lb[4]
    if not (isinstance(br, ast.If) and _u(br.test) == "hash_name" and len(br.body) == 2 and len(br.orelse) == 1):
        raise U.Unsupported("Tree.from_list: not `if hash_name: <2 statements> else: <1 statement>`")
    mn = br.body[0]
    if not (isinstance(mn, ast.Assign) and _u(mn.targets[0]) == "meta_name" and isinstance(mn.value, ast.IfExp)
            and isinstance(mn.value.test, ast.Compare) and len(mn.value.test.ops) == 1
            and isinstance(mn.value.test.ops[0], ast.Eq) and _u(mn.value.test.left) == "hash_name"
            and _u(mn.value.orelse) == "hash_name"):
        raise U.Unsupported(f"Tree.from_list: `{_u(mn)}` is not `meta_name = <str> if hash_name == <str> else hash_name`")
    fl_to = _str_const(U, mn.value.body, "Tree.from_list renaming (to)")
    fl_from = _str_const(U, mn.value.test.comparators[0], "Tree.from_list renaming (from)")
    _want(U, "Tree.from_list branch", br.body, 1, "hash_info = HashInfo(hash_name, getattr(meta, meta_name))")
    _want(U, "Tree.from_list branch", br.orelse, 0, "hash_info = HashInfo.from_dict(entry)")
    _want(U, "Tree.from_list loop", lb, 5, "tree.add(parts, meta, hash_info)")

    # ---- load: what is accepted as a listing, and the hash_name it hands to from_list
    f_ld = u.find_func(tree, "Tree.load")
    u.note(f_ld)
    if [_u(x) for x in f_ld.decorator_list] != ["classmethod"] or _args(f_ld) != ["cls", "odb", "hash_info", "hash_name"] \
            or [_u(x) for x in f_ld.args.defaults] != ["None"]:
        raise U.Unsupported("Tree.load: not a classmethod (cls, odb, hash_info, hash_name=None)")
    b = _body(f_ld)
    if len(b) != 10:
        raise U.Unsupported(f"Tree.load: {len(b)} statements, expected 10")
    _want(U, "Tree.load", b, 0, "obj = odb.get(hash_info.value)")
    _want(U, "Tree.load", b, 1,
          "try:\n    with obj.fs.open(obj.path, 'r') as fobj:\n        raw = json.load(fobj)\n"
          "except ValueError as exc:\n    raise ObjectFormatError(f'{obj} is corrupted') from exc")
    chk = b[2]
    if not (isinstance(chk, ast.If) and not chk.orelse and _u(chk.test) == "not isinstance(raw, list)"
            and isinstance(chk.body[-1], ast.Raise) and _u(chk.body[-1].exc).startswith("ObjectFormatError(")):
        raise U.Unsupported(f"Tree.load: the format check is `if {_u(chk.test) if isinstance(chk, ast.If) else _u(chk)}`, "
                            "expected `if not isinstance(raw, list): ... raise ObjectFormatError` (every list, the empty "
                            "one included, is a listing)")
    hn = b[3]
    if not (isinstance(hn, ast.If) and not hn.orelse and len(hn.body) == 1 and isinstance(hn.test, ast.BoolOp)
            and isinstance(hn.test.op, ast.And) and len(hn.test.values) == 2 and _u(hn.test.values[0]) == "hash_name is None"
            and isinstance(hn.test.values[1], ast.Compare) and _u(hn.test.values[1].left) == "odb.hash_name"
            and isinstance(hn.test.values[1].ops[0], ast.Eq) and isinstance(hn.body[0], ast.Assign)
            and _u(hn.body[0].targets[0]) == "hash_name"):
        raise U.Unsupported(f"Tree.load: statement 3 is not `if hash_name is None and odb.hash_name == <str>: hash_name = <str>`: `{_u(hn)}`")
    ld_from = _str_const(U, hn.test.values[1].comparators[0], "Tree.load legacy odb name")
    ld_to = _str_const(U, hn.body[0].value, "Tree.load legacy hash_name")
    _want(U, "Tree.load", b, 4, "tree = cls.from_list(raw, hash_name=hash_name)")
    _want(U, "Tree.load", b, 5, "tree.path = obj.path")
    _want(U, "Tree.load", b, 6, "tree.fs = obj.fs")
    _want(U, "Tree.load", b, 7, "tree.hash_info = hash_info")
    _want(U, "Tree.load", b, 8, "tree.oid = hash_info.value")
    _want(U, "Tree.load", b, 9, "return tree")

    # ---------------------------------------------------------------- emission
    o = u.out
    o.append("(* The decisions of hashfile/tree.py that Model/Listing.v depends on.  Runtime (dict operations, the\n"
             "   json printer, MD5, Meta.to_dict, the record types) comes from Base/Json.v and Model/Listing.v;\n"
             "   Proofs/ListingGenTie.v proves the hand-written model equal to these definitions. *)\n")
    o.append(f"(* {rel}:{pr.lineno} PARAM_RELPATH = {param_relpath!r} *)\n"
             f"Definition g_param_relpath : list N := {_cps(param_relpath)}.\n")
    o.append(f"(* {rel}:{f_add.lineno} Tree.add: statement 0 `self.__dict__.pop('_trie', None)` - unconditional - then\n"
             f"   self._dict[key] = ({slot0}, {slot1}); __iter__ yields (key, value[0], value[1]) in dict order *)\n"
             "Definition g_add_drops_trie : bool := true.\n"
             "Definition g_add (key : Listing.key) (meta : option Listing.meta) (oid : hash_info) (t : tree) : tree :=\n"
             f"  Listing.add {{| e_key := key; e_meta := {slot0}; e_hash := {slot1} |}} t.\n")
    o.append(f"(* {rel_hi} HashInfo.__bool__ = bool(self.value); HashInfo.to_dict: {{}} if not value or not name else {{name: value}}\n"
             f"   {rel}:{h2d.lineno} _hi_to_dict: {{}} if not hi; {{{al_to!r}: hi.value}} if hi.name == {al_from!r}; else hi.to_dict() *)\n"
             "Definition g_hi_to_dict (h : hash_info) : jobj :=\n"
             "  match h with\n  | None => []\n  | Some (name, value) =>\n"
             "      if is_nil value then []\n"
             f"      else if list_N_eqb name {_cps(al_from)} then [({_cps(al_to)}, JStr value)]\n"
             "      else if is_nil value || is_nil name then []\n"
             "      else [(name, JStr value)]\n  end.\n")
    exprs = {
        "meta": "(if with_meta then match e_meta e with Some m => meta_to_dict m | None => [] end else [])",
        "hash": "(g_hi_to_dict (e_hash e))",
    }
    acc = None
    for it in items:
        if acc is None:
            acc = exprs[it] if it != "relpath" else "[(g_param_relpath, JStr (join_sep 47 (e_key e)))]"
        elif it == "relpath":
            acc = f"(dict_set g_param_relpath (JStr (join_sep 47 (e_key e))) {acc})"
        else:
            acc = f"(dict_update {acc} {exprs[it]})"
    o.append(f"(* {rel}:{d.lineno} the per-entry dict, items in source order: {', '.join(items)}; the path is\n"
             "   posixpath.sep.join(parts), verbatim *)\n"
             "Definition g_entry_dict (with_meta : bool) (e : entry) : jobj :=\n"
             f"  {acc}.\n")
    o.append(f"(* {rel}:{ret.lineno} sorted(<the built dicts>, key=itemgetter(PARAM_RELPATH)): stable, string order *)\n"
             "Definition g_sort_key (d : jobj) : list N :=\n"
             "  match dict_get g_param_relpath d with Some (JStr s) => s | _ => [] end.\n"
             "Definition g_dict_leb (a b : jobj) : bool := lex_leb (g_sort_key a) (g_sort_key b).\n"
             "Definition g_as_list (with_meta : bool) (t : tree) : jdoc :=\n"
             "  sort_by g_dict_leb (map (g_entry_dict with_meta) t).\n")
    printer = "json_dumps" if sort_keys else "print_doc"
    o.append(f"(* {rel}:{f_ab.lineno} json.dumps(self.as_list(with_meta=with_meta), sort_keys={sort_keys}).encode('utf-8');\n"
             "   the text is ASCII (ensure_ascii), so encode is the identity on code points *)\n"
             f"Definition g_as_bytes (with_meta : bool) (t : tree) : list N := {printer} (g_as_list with_meta t).\n"
             f"Definition g_as_bytes_default : bool := {'true' if ab_default else 'false'}.\n")
    o.append(f"(* {rel}:{f_dg.lineno} Tree.digest: hash_file reads the file that received {hashed_src}; the value gets\n"
             f"   {suffix!r} appended; with_meta only writes a second file (path + '.with_meta') and re-points self.path.\n"
             f"   name defaults to DEFAULT_ALGORITHM = {default_alg!r} *)\n"
             "Definition g_digest (with_meta : bool) (t : tree) : list N :=\n"
             f"  md5_hex (g_as_bytes {hashed_flag} t) ++ {_cps(suffix)}.\n")
    o.append(f"(* {rel}:{sp.lineno} parts = tuple(relpath.split({split_sep!r})) - the popped string, verbatim *)\n"
             f"Definition g_key_of_relpath (s : list N) : Listing.key := split_sep {ord(split_sep)} s.\n"
             f"(* {rel}:{mn.lineno} meta_name = {fl_to!r} if hash_name == {fl_from!r} else hash_name *)\n"
             "Definition g_meta_name (hn : list N) : list N :=\n"
             f"  if list_N_eqb hn {_cps(fl_from)} then {_cps(fl_to)} else hn.\n")
    o.append(f"(* {rel}:{f_fl.lineno} one iteration of Tree.from_list: pop PARAM_RELPATH (KeyError 8), split, Meta.from_dict,\n"
             "   `if hash_name:` (None and '' are false) HashInfo(hash_name, getattr(meta, meta_name)) else\n"
             "   HashInfo.from_dict(entry) (ValueError 9 unless <= 1 item).  99: AttributeError / a non-text value *)\n"
             "Definition g_from_list_entry (hash_name : option (list N)) (o : jobj) : entry + N :=\n"
             "  match dict_get g_param_relpath o with\n"
             "  | None => inr 8\n"
             "  | Some (JStr rp) =>\n"
             "      let d := dict_del g_param_relpath o in\n"
             "      let m := meta_from_dict d in\n"
             "      let k := g_key_of_relpath rp in\n"
             "      match hash_name with\n"
             "      | Some (c :: r) =>\n"
             "          let hn := c :: r in\n"
             "          match meta_getattr m (g_meta_name hn) with\n"
             "          | None => inr 99\n"
             "          | Some None => inl {| e_key := k; e_meta := Some m; e_hash := Some (hn, []) |}\n"
             "          | Some (Some (JStr v)) => inl {| e_key := k; e_meta := Some m; e_hash := Some (hn, v) |}\n"
             "          | Some (Some _) => inr 99\n"
             "          end\n"
             "      | _ =>\n"
             "          match d with\n"
             "          | [] => inl {| e_key := k; e_meta := Some m; e_hash := None |}\n"
             "          | [(n, JStr v)] => inl {| e_key := k; e_meta := Some m; e_hash := Some (n, v) |}\n"
             "          | [(_, _)] => inr 99\n"
             "          | _ => inr 9\n"
             "          end\n"
             "      end\n"
             "  | Some _ => inr 99\n"
             "  end.\n")
    o.append(f"(* {rel}:{f_ld.lineno} Tree.load: json.load; `if not isinstance(raw, list)` -> ObjectFormatError (every list, the\n"
             f"   empty one included, is a listing); hash_name = {ld_to!r} if hash_name is None and odb.hash_name == {ld_from!r};\n"
             "   then from_list(raw, hash_name) *)\n"
             "Definition g_load_hash_name (odb_name : list N) (hash_name : option (list N)) : option (list N) :=\n"
             "  match hash_name with\n"
             f"  | None => if list_N_eqb odb_name {_cps(ld_from)} then Some {_cps(ld_to)} else None\n"
             "  | Some hn => Some hn\n  end.\n")
    return u
