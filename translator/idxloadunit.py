"""Translator unit "idxload" (properties C17, C08, C09): index/index.py lazy loading of directory
entries -> coq/theories/Gen/IdxLoad.v.

Read from the source on every run (fail closed on any other shape):

  DataIndex._load(key, entry)            the chain of `if <T>: return` guards before the load, the
                                         handler of DataIndexDirError (`self.onerror(entry, exc); return`),
                                         and what happens after a successful load
                                         (`entry.loaded = True; self._trie[key] = entry; self._trie.commit()`)
                                         -> load_skips, load_on_failure, load_marks
  _load_from_storage(trie, entry, si)    the ORDER of the roles tried, `if not storage: continue`,
                                         `except Exception` -> next role, `return True` on the first
                                         success, DataIndexDirError after the loop
                                         -> load_roles, load_role_skips_unset, load_role_failure_tries_next
  _load_from_object_storage(...)         the refusal guard (no hash / not a .dir hash -> FileNotFoundError),
                                         Tree.load with the STORAGE's hash name, the ancestor loop
                                         `if len(ikey) >= <m>: for idx in range(<a>, len(ikey)): dirs.add(ikey[:-idx])`,
                                         the child entry and the directory entry constructors
                                         -> ols_refuses, anc_min_len, anc_from, ancestors, child_loaded,
                                            dir_entry_isdir / dir_entry_loaded / dir_entry_has_hash
  DataIndex.iteritems / _ensure_loaded / load / __getitem__
                                         which entry is loaded before the trie is asked
                                         -> iter_loads_longest_prefix (guarded by `if prefix:`), iter_loads_each,
                                            ensure_loaded_test, load_is_shallow_iteration, getitem_loads_longest_prefix
"""

from __future__ import annotations

import ast

RUNTIME = '''(* ---- fixed text of this unit ------------------------------------------------------------------ *)
Inductive role := RData | RCache | RRemote.
Inductive on_dir_error := CallOnerrorAndReturn.
(* ikey[:-idx] for idx in range(from, len(ikey)), guarded by len(ikey) >= min_len *)
Definition gen_ancestors {A} (min_len from : nat) (k : list A) : list (list A) :=
  if Nat.leb min_len (length k)
  then map (fun idx => firstn (length k - idx) k) (seq from (length k - from))
  else [].
'''


def _u(n):
    return ast.unparse(n)


def _strip(body):
    return [s for s in body if not (isinstance(s, ast.Expr) and isinstance(s.value, ast.Constant)
                                    and isinstance(s.value.value, str))]


def unit_idxload(u):
    import units as U

    def bad(msg):
        raise U.Unsupported("idxload: " + msg)

    def boolexp(node, atoms, where):
        if isinstance(node, ast.BoolOp):
            op = " && " if isinstance(node.op, ast.And) else " || "
            return "(" + op.join(boolexp(v, atoms, where) for v in node.values) + ")"
        if isinstance(node, ast.UnaryOp) and isinstance(node.op, ast.Not):
            return f"(negb {boolexp(node.operand, atoms, where)})"
        t = _u(node)
        if t in atoms:
            return atoms[t]
        bad(f"{where}: `{t}` is not a boolean over {sorted(atoms)}")

    tree, rel = u.load("index/index.py")
    u.cur_rel = rel
    o = u.out
    o.append(RUNTIME)

    # DataIndexEntry must be always-true (no __bool__/__len__): `if not entry` = `entry is None`
    cls = next((n for n in tree.body if isinstance(n, ast.ClassDef) and n.name == "DataIndexEntry"), None)
    if cls is None:
        bad("class DataIndexEntry not found")
    for s in cls.body:
        if isinstance(s, ast.FunctionDef) and s.name in ("__bool__", "__len__"):
            bad(f"DataIndexEntry defines {s.name}: `if not entry` is no longer `entry is None`")

    # ---------------- DataIndex._load
    f = u.find_func(tree, "DataIndex._load")
    u.note(f)
    if [a.arg for a in f.args.args] != ["self", "key", "entry"]:
        bad("DataIndex._load signature changed")
    body = _strip(f.body)
    atoms = {"entry": "present", "entry.loaded": "loaded", "entry.meta": "has_meta", "entry.meta.isdir": "isdir",
             "storage_info is None": "(negb has_storage)"}
    skips = []
    i = 0
    seen_si = False
    while i < len(body):
        s = body[i]
        if isinstance(s, ast.If) and not s.orelse and len(s.body) == 1 and isinstance(s.body[0], ast.Return) \
                and s.body[0].value is None:
            if "storage_info" in _u(s.test) and not seen_si:
                bad("storage_info tested before it is assigned")
            skips.append(boolexp(s.test, atoms, "_load guard"))
            i += 1
        elif _u(s) == "storage_info = self.storage_map.get(key)" and not seen_si:
            seen_si = True
            i += 1
        else:
            break
    if not seen_si or len(skips) < 1:
        bad("DataIndex._load: guard chain not recognised")
    rest = body[i:]
    if len(rest) != 4:
        bad(f"DataIndex._load: {len(rest)} statements after the guards, expected try + 3: {[_u(s) for s in rest]}")
    tr = rest[0]
    if not (isinstance(tr, ast.Try) and not tr.orelse and not tr.finalbody and len(tr.body) == 1
            and _u(tr.body[0]) == "_load_from_storage(self._trie, entry, storage_info)" and len(tr.handlers) == 1
            and _u(tr.handlers[0].type) == "DataIndexDirError" and tr.handlers[0].name == "exc"
            and [_u(s) for s in tr.handlers[0].body] == ["self.onerror(entry, exc)", "return"]):
        bad(f"DataIndex._load: try statement changed: `{_u(tr)}`")
    if [_u(s) for s in rest[1:]] != ["entry.loaded = True", "self._trie[key] = entry", "self._trie.commit()"]:
        bad(f"DataIndex._load: tail changed: {[_u(s) for s in rest[1:]]}")
    o.append(f"(* {rel}:{f.lineno} DataIndex._load: `if <test>: return` guards, in order; present = `entry` is not None *)\n"
             "Definition load_skips (present loaded has_meta isdir has_storage : bool) : bool :=\n  "
             + " || ".join(skips) + ".\n"
             "Definition load_proceeds (loaded has_meta isdir has_storage : bool) : bool :=\n"
             "  negb (load_skips true loaded has_meta isdir has_storage).\n"
             "Definition load_on_failure : on_dir_error := CallOnerrorAndReturn.\n"
             "Definition load_marks_loaded_after_success : bool := true.\n")

    # ---------------- _load_from_storage
    g = u.find_func(tree, "_load_from_storage")
    u.note(g)
    gb = _strip(g.body)
    if [a.arg for a in g.args.args] != ["trie", "entry", "storage_info"] or len(gb) != 3:
        bad("_load_from_storage: signature / statement count changed")
    if _u(gb[0]) != "last_exc = None":
        bad("_load_from_storage: statement 0")
    loop = gb[1]
    if not (isinstance(loop, ast.For) and _u(loop.target) == "storage" and isinstance(loop.iter, ast.List)
            and not loop.orelse):
        bad("_load_from_storage: loop shape")
    rmap = {"storage_info.data": "RData", "storage_info.cache": "RCache", "storage_info.remote": "RRemote"}
    roles = []
    for e in loop.iter.elts:
        if _u(e) not in rmap:
            bad(f"_load_from_storage: role `{_u(e)}`")
        roles.append(rmap[_u(e)])
    lb = loop.body
    if len(lb) != 2 or _u(lb[0]) != "if not storage:\n    continue":
        bad("_load_from_storage: loop body is not `if not storage: continue; try: ...`")
    tr = lb[1]
    if not (isinstance(tr, ast.Try) and not tr.orelse and not tr.finalbody and len(tr.handlers) == 1
            and _u(tr.handlers[0].type) == "Exception" and len(tr.body) == 2 and _u(tr.body[1]) == "return True"
            and _u(tr.body[0]) == ("if isinstance(storage, ObjectStorage):\n    _load_from_object_storage(trie, entry, storage)\n"
                                   "else:\n    _load_from_file_storage(trie, entry, storage)")):
        bad(f"_load_from_storage: try statement changed: `{_u(tr)}`")
    hb = tr.handlers[0].body
    if not (len(hb) == 2 and _u(hb[0]) == "last_exc = exc" and isinstance(hb[1], ast.Expr)
            and _u(hb[1].value.func) == "logger.debug"):
        bad("_load_from_storage: handler is not `last_exc = exc; logger.debug(...)` (falls through to the next role)")
    if not (isinstance(gb[2], ast.Raise) and _u(gb[2].exc.func) == "DataIndexDirError" and _u(gb[2].cause) == "last_exc"):
        bad("_load_from_storage: does not end with `raise DataIndexDirError(...) from last_exc`")
    o.append(f"(* {rel}:{g.lineno} _load_from_storage: roles in the order tried; unset roles skipped; any exception -> next "
             "role; first success returns; DataIndexDirError when none answered *)\n"
             f"Definition load_roles : list role := [{'; '.join(roles)}].\n"
             "Definition load_role_skips_unset : bool := true.\n"
             "Definition load_role_failure_tries_next : bool := true.\n")

    # ---------------- _load_from_object_storage
    h = u.find_func(tree, "_load_from_object_storage")
    u.note(h)
    hb = _strip(h.body)
    if [a.arg for a in h.args.args] != ["trie", "root_entry", "storage"] or len(hb) != 5:
        bad(f"_load_from_object_storage: signature / statement count changed ({len(hb)})")
    gd = hb[0]
    if not (isinstance(gd, ast.If) and not gd.orelse and len(gd.body) == 1 and _u(gd.body[0]) == "raise FileNotFoundError"):
        bad("_load_from_object_storage: guard is not `if <test>: raise FileNotFoundError`")
    refuses = boolexp(gd.test, {"root_entry.hash_info": "has_hash", "root_entry.hash_info.isdir": "hash_isdir"},
                      "_load_from_object_storage guard")
    if _u(hb[1]) != "obj = Tree.load(storage.odb, root_entry.hash_info, hash_name=storage.odb.hash_name)":
        bad(f"_load_from_object_storage: `{_u(hb[1])}`")
    if _u(hb[2]) != "dirs = set()":
        bad("_load_from_object_storage: `dirs = set()` expected")
    loop = hb[3]
    if not (isinstance(loop, ast.For) and _u(loop.target) == "(ikey, (meta, hash_info))" and _u(loop.iter) == "obj.iteritems()"
            and len(loop.body) == 5 and not loop.orelse):
        bad(f"_load_from_object_storage: file loop shape: `{_u(loop.target)}` in `{_u(loop.iter)}`, {len(loop.body)} statements")
    l0, l1, l2, l3, l4 = loop.body
    if _u(l0) != "if not meta and root_entry.hash_info and (root_entry.hash_info == hash_info):\n    meta = root_entry.meta":
        bad(f"_load_from_object_storage: meta substitution changed: `{_u(l0)}`")
    if not (isinstance(l1, ast.If) and not l1.orelse and isinstance(l1.test, ast.Compare) and len(l1.test.ops) == 1
            and isinstance(l1.test.ops[0], ast.GtE) and _u(l1.test.left) == "len(ikey)"
            and isinstance(l1.test.comparators[0], ast.Constant) and isinstance(l1.test.comparators[0].value, int)):
        bad(f"_load_from_object_storage: ancestor guard is not `if len(ikey) >= <int>:`: `{_u(l1.test)}`")
    min_len = l1.test.comparators[0].value
    inner = [s for s in l1.body if not (isinstance(s, ast.Expr) and isinstance(s.value, ast.Constant))]
    if not (len(inner) == 1 and isinstance(inner[0], ast.For) and _u(inner[0].target) == "idx"
            and isinstance(inner[0].iter, ast.Call) and _u(inner[0].iter.func) == "range" and len(inner[0].iter.args) == 2
            and isinstance(inner[0].iter.args[0], ast.Constant) and isinstance(inner[0].iter.args[0].value, int)
            and _u(inner[0].iter.args[1]) == "len(ikey)"
            and [_u(s) for s in inner[0].body] == ["dirs.add(ikey[:-idx])"]):
        bad(f"_load_from_object_storage: ancestor loop is not `for idx in range(<int>, len(ikey)): dirs.add(ikey[:-idx])`: "
            f"`{_u(l1)}`")
    a_from = inner[0].iter.args[0].value
    if a_from < 1:
        bad("ancestor loop starts at idx < 1 (ikey[:-0] is empty)")
    if [_u(l2), _u(l3), _u(l4)] != ["entry_key = root_entry.key + ikey",
                                     "child_entry = DataIndexEntry(key=entry_key, hash_info=hash_info, meta=meta)",
                                     "trie[entry_key] = child_entry"]:
        bad(f"_load_from_object_storage: child entry construction changed: {[_u(l2), _u(l3), _u(l4)]}")
    dl = hb[4]
    if not (isinstance(dl, ast.For) and _u(dl.target) == "dkey" and _u(dl.iter) == "dirs"
            and [_u(s) for s in dl.body] == ["entry_key = root_entry.key + dkey",
                                              "trie[entry_key] = DataIndexEntry(key=entry_key, meta=Meta(isdir=True), loaded=True)"]):
        bad(f"_load_from_object_storage: directory entry loop changed: `{_u(dl)}`")
    # DataIndexEntry.loaded default
    ld = next((s for s in cls.body if isinstance(s, ast.AnnAssign) and _u(s.target) == "loaded"), None)
    if ld is None or not (isinstance(ld.value, ast.Constant) and ld.value.value in (False, None)):
        bad("DataIndexEntry.loaded does not default to a falsy constant")
    o.append(f"(* {rel}:{h.lineno} _load_from_object_storage *)\n"
             f"Definition ols_refuses (has_hash hash_isdir : bool) : bool := {refuses}.\n"
             f"Definition anc_min_len : nat := {min_len}.\n"
             f"Definition anc_from : nat := {a_from}.\n"
             "Definition ancestors {A} (ikey : list A) : list (list A) := gen_ancestors anc_min_len anc_from ikey.\n"
             "Definition child_loaded : bool := false.            (* DataIndexEntry(key=, hash_info=, meta=): loaded defaults to a falsy constant *)\n"
             "Definition dir_entry_isdir : bool := true.          (* DataIndexEntry(key=, meta=Meta(isdir=True), loaded=True) *)\n"
             "Definition dir_entry_loaded : bool := true.\n"
             "Definition dir_entry_has_hash : bool := false.\n"
             "Definition files_before_dirs : bool := true.        (* file entries are assigned first, directory entries after *)\n")

    # ---------------- iteritems / _ensure_loaded / load / __getitem__
    it = u.find_func(tree, "DataIndex.iteritems")
    u.note(it)
    ib = _strip(it.body)
    want0 = ("if prefix:\n    item = self._longest_prefix(prefix)\n    if item:\n        key, entry = item\n"
             "        self._load(key, entry)")
    want1 = ("for key, entry in self._trie.items(prefix=prefix, shallow=shallow):\n    self._load(key, entry)\n"
             "    yield (key, entry)")
    if [_u(s) for s in ib] != [want0, want1]:
        bad(f"DataIndex.iteritems changed: {[_u(s) for s in ib]}")
    en = u.find_func(tree, "DataIndex._ensure_loaded")
    u.note(en)
    eb = _strip(en.body)
    if len(eb) != 2 or _u(eb[0]) != "entry = self.get(prefix)" or not (
            isinstance(eb[1], ast.If) and not eb[1].orelse and [_u(s) for s in eb[1].body] == ["self._load(prefix, entry)"]):
        bad(f"DataIndex._ensure_loaded changed: {[_u(s) for s in eb]}")
    etest = boolexp(eb[1].test, {"entry": "present", "entry.meta": "has_meta", "entry.meta.isdir": "isdir",
                                 "entry.loaded": "loaded"}, "_ensure_loaded test")
    ld_f = u.find_func(tree, "DataIndex.load")
    u.note(ld_f)
    if [_u(s) for s in _strip(ld_f.body)] != ["kwargs['shallow'] = True", "for _ in self.iteritems(**kwargs):\n    pass"]:
        bad("DataIndex.load changed")
    gi = u.find_func(tree, "DataIndex.__getitem__")
    u.note(gi)
    gb = _strip(gi.body)
    want = ["item = self._trie.get(key)",
            "if item:\n    if item.meta is None:\n        item.meta = self._get_meta(key, item)\n    return item",
            "lprefix = self._longest_prefix(key)",
            "if lprefix is not None:\n    dir_key, dir_entry = lprefix\n    self._load(dir_key, dir_entry)",
            "return self._trie[key]"]
    if [_u(s) for s in gb] != want:
        bad(f"DataIndex.__getitem__ changed: {[_u(s) for s in gb]}")
    lp = u.find_func(tree, "DataIndex._longest_prefix")
    u.note(lp)
    if [_u(s) for s in _strip(lp.body)] != [
            "item = self._trie.longest_prefix(key)",
            "if not item and key:\n    root = self._trie.get(())\n    if root is not None:\n        return ((), root)",
            "return item"]:
        bad(f"DataIndex._longest_prefix changed: {[_u(s) for s in _strip(lp.body)]}")
    o.append(f"(* {rel}:{lp.lineno} _longest_prefix: the trie's answer, else an entry at the root key (fix for the SQLite trie) *)\n"
             "Definition longest_prefix_falls_back_to_root : bool := true.\n")
    o.append(f"(* {rel}:{it.lineno} iteritems; :{en.lineno} _ensure_loaded; :{ld_f.lineno} load; :{gi.lineno} __getitem__ *)\n"
             "Definition iter_loads_longest_prefix (prefix_nonempty : bool) : bool := prefix_nonempty.\n"
             "Definition iter_loads_each : bool := true.\n"
             f"Definition ensure_loaded_test (present has_meta isdir loaded : bool) : bool := {etest}.\n"
             "Definition load_is_shallow_iteration : bool := true.\n"
             "Definition getitem_loads_longest_prefix_on_miss : bool := true.\n")
    return u
