"""Translator unit "serdict" (property C20): Meta.from_dict, HashInfo.from_dict, DataIndexEntry.from_dict
-> coq/theories/Gen/SerDict.v.

These three functions are outside the statement subset of units.FuncTr (a loop that fills **kwargs, tuple
unpacking of d.items(), attribute assignment on a fresh object), so each has its own fail-closed shape
check: the function body must be *exactly* the recognised statement shapes (compared on the AST); what
flows from the source into the Gallina text is
  * the attrs field lists, types and defaults of Meta / HashInfo / DataIndexEntry (order of the reads, the
    typed reader per field, the value of an absent field),
  * for DataIndexEntry.from_dict: which dictionary names are read, with `.get` + truthiness guard or with
    `d[...]` (KeyError), into which attribute, through which class's from_dict, in which order.
Anything else raises Unsupported -> the unit fails closed (a broken translation obligation).
"""

from __future__ import annotations

import ast

RUNTIME = '''(* ---- runtime of this unit (fixed text) ------------------------------------------------------ *)
(* results: exceptions are error kinds, codes of harness/lib/impl.py:ERR; 100 = a value of a Python type
   the typed records cannot carry (the implementation would build an ill-typed object) *)
Inductive res (A : Type) : Type := Ok (a : A) | Err (kind : N).
Arguments Ok {A} a.
Arguments Err {A} kind.

Definition E_KEY : N := 8.      (* KeyError *)
Definition E_VALUE : N := 9.    (* ValueError *)
Definition E_ATTR : N := 99.    (* AttributeError ("other") *)
Definition E_TYPE : N := 100.   (* value of an unexpected Python type: outside the typed model *)

Definition bind {A B} (r : res A) (f : A -> res B) : res B :=
  match r with Ok a => f a | Err k => Err k end.
Notation "x <- e ;; f" := (bind e (fun x => f)) (at level 61, e at next level, right associativity).

(* bool(v) of Python *)
Definition pyv_truthy (v : pyv) : bool :=
  match v with
  | PVNone => false
  | PVBool b => b
  | PVInt n => negb (N.eqb n 0)
  | PVStr s => truthy_list s
  | PVDict d => truthy_list d
  end.

(* typed readers of "the value under a name, if present" (absent -> the attrs default) *)
Definition rd_bool (dflt : bool) (o : option pyv) : res bool :=
  match o with None => Ok dflt | Some (PVBool b) => Ok b | Some _ => Err E_TYPE end.
Definition rd_N (dflt : N) (o : option pyv) : res N :=
  match o with None => Ok dflt | Some (PVInt n) => Ok n | Some _ => Err E_TYPE end.
Definition rd_oN (o : option pyv) : res (option N) :=
  match o with None => Ok None | Some PVNone => Ok None | Some (PVInt n) => Ok (Some n) | Some _ => Err E_TYPE end.
Definition rd_ostr (o : option pyv) : res (option (list N)) :=
  match o with None => Ok None | Some PVNone => Ok None | Some (PVStr s) => Ok (Some s) | Some _ => Err E_TYPE end.
Definition rd_obool (o : option pyv) : res (option bool) :=
  match o with None => Ok None | Some PVNone => Ok None | Some (PVBool b) => Ok (Some b) | Some _ => Err E_TYPE end.
(* d[name] *)
Definition subscript (d : pydict) (k : list N) : res pyv :=
  match dict_get d k with Some v => Ok v | None => Err E_KEY end.
(* x = d.get(name); if x: ... x used as a dictionary ... *)
Definition truthy_subdict (o : option pyv) : res (option pydict) :=
  match o with
  | None => Ok None
  | Some v => if pyv_truthy v then match v with PVDict d => Ok (Some d) | _ => Err E_TYPE end
              else Ok None
  end.
'''

META_FROM_DICT = '''
def from_dict(cls, d):
    kwargs = {}
    for field_ in cls.fields:
        if field_ in d:
            kwargs[field_] = d[field_]
    return cls(**kwargs)
'''

HASHINFO_FROM_DICT = '''
def from_dict(cls, d):
    if not d:
        return cls()
    ((name, value),) = d.items()
    return cls(name, value)
'''


def _body(f):
    return [s for s in f.body
            if not (isinstance(s, ast.Expr) and isinstance(s.value, ast.Constant) and isinstance(s.value.value, str))]


def _dump(stmts):
    return [ast.dump(s, include_attributes=False) for s in stmts]


def _template(text):
    return _dump(_body(ast.parse(text).body[0]))


def _check_classmethod(U, f, qual):
    if [ast.unparse(d) for d in f.decorator_list] != ["classmethod"]:
        raise U.Unsupported(f"{qual}: decorators {[ast.unparse(d) for d in f.decorator_list]}")
    a = f.args
    if [x.arg for x in a.args] != ["cls", "d"] or a.vararg or a.kwarg or a.kwonlyargs or a.posonlyargs or a.defaults:
        raise U.Unsupported(f"{qual}: signature is not (cls, d)")


def _defaults(U, tree, pyname):
    """attrs field -> default as a Python constant (the class must give every field a constant default)"""
    cls = next(n for n in tree.body if isinstance(n, ast.ClassDef) and n.name == pyname)
    out = {}
    for s in cls.body:
        if not (isinstance(s, ast.AnnAssign) and isinstance(s.target, ast.Name)):
            continue
        ann = s.annotation
        if isinstance(ann, ast.Subscript) and isinstance(ann.value, ast.Name) and ann.value.id == "ClassVar":
            continue
        v = s.value
        if isinstance(v, ast.Call) and isinstance(v.func, ast.Name) and v.func.id == "field":
            kw = {k.arg: k.value for k in v.keywords}
            if v.args or "factory" in kw or "converter" in kw or "default" not in kw:
                raise U.Unsupported(f"{pyname}.{s.target.id}: field() without a plain default")
            v = kw["default"]
        if not isinstance(v, ast.Constant):
            raise U.Unsupported(f"{pyname}.{s.target.id}: no constant default")
        out[s.target.id] = v.value
    return out


def _reader(U, rec, fname, ftype, default):
    """Coq reader (a function of `option pyv`) for one attrs field"""
    if ftype == "bool" and isinstance(default, bool):
        return f"rd_bool {'true' if default else 'false'}"
    if ftype == "int" and isinstance(default, int) and not isinstance(default, bool) and default >= 0:
        return f"rd_N {default}"
    if ftype in (("opt", "int"), ("opt", "float")) and default is None:
        return "rd_oN"
    if ftype == ("opt", "str") and default is None:
        return "rd_ostr"
    if ftype == ("opt", "bool") and default is None:
        return "rd_obool"
    raise U.Unsupported(f"{rec.pyname}.{fname}: no typed reader for {ftype!r} with default {default!r}")


def _default_code(U, rec, fname, ftype, default):
    if default is None and isinstance(ftype, tuple) and ftype[0] == "opt":
        return "None"
    if ftype == "bool" and isinstance(default, bool):
        return "true" if default else "false"
    if ftype == "int" and isinstance(default, int) and not isinstance(default, bool) and default >= 0:
        return str(default)
    raise U.Unsupported(f"{rec.pyname}.{fname}: default {default!r} of type {ftype!r}")


def _var(n):
    return "v_" + n


def unit_serdict(u):
    import units as U

    U._with_types(u)
    meta, hi, ent = u.recs["meta"], u.recs["hashinfo"], u.recs["ientry"]
    u.out.append(RUNTIME)

    # ---------------- Meta.from_dict
    t_meta, rel = u.load("hashfile/meta.py")
    u.cur_rel = rel
    f = u.find_func(t_meta, "Meta.from_dict")
    u.note(f)
    _check_classmethod(U, f, "Meta.from_dict")
    if _dump(_body(f)) != _template(META_FROM_DICT):
        raise U.Unsupported("Meta.from_dict: body is not the recognised `for field_ in cls.fields: if field_ in d: "
                            "kwargs[field_] = d[field_]` loop")
    # cls.fields must be all attrs fields, in definition order
    fa = [n for n in t_meta.body if isinstance(n, ast.Assign) and [ast.unparse(t) for t in n.targets] == ["Meta.fields"]]
    if len(fa) != 1 or ast.unparse(fa[0].value) != "list(fields_dict(Meta))":
        raise U.Unsupported("Meta.fields is not `list(fields_dict(Meta))`")
    u.note(fa[0])
    imp = [n for n in t_meta.body if isinstance(n, ast.ImportFrom) and n.module == "attrs"
           and any(a.name == "fields_dict" and a.asname is None for a in n.names)]
    if not imp:
        raise U.Unsupported("fields_dict is not attrs.fields_dict")
    dm = _defaults(U, t_meta, "Meta")
    u.note(next(n for n in t_meta.body if isinstance(n, ast.ClassDef) and n.name == "Meta"))
    lines = []
    for n, t, _ in meta.fields:
        lines.append(f"  {_var(n)} <- {_reader(U, meta, n, t, dm[n])} (dict_get d {U.lit_bytes(n)}) ;;")
    u.out.append(f"(* {rel}:{f.lineno} Meta.from_dict - one typed read per attrs field, in the order of Meta.fields *)\n"
                 "Definition Meta_from_dict (d : pydict) : res meta :=\n" + "\n".join(lines) + "\n"
                 f"  Ok (mk_meta {' '.join(_var(n) for n, _, _ in meta.fields)}).\n")

    # ---------------- HashInfo.from_dict
    t_hi, rel = u.load("hashfile/hash_info.py")
    u.cur_rel = rel
    f = u.find_func(t_hi, "HashInfo.from_dict")
    u.note(f)
    _check_classmethod(U, f, "HashInfo.from_dict")
    if _dump(_body(f)) != _template(HASHINFO_FROM_DICT):
        raise U.Unsupported("HashInfo.from_dict: body is not `if not d: return cls()` / `((name, value),) = d.items()` "
                            "/ `return cls(name, value)`")
    dh = _defaults(U, t_hi, "HashInfo")
    u.note(next(n for n in t_hi.body if isinstance(n, ast.ClassDef) and n.name == "HashInfo"))
    if len(hi.fields) < 2 or hi.fields[0][1] != ("opt", "str"):
        raise U.Unsupported("HashInfo: the first positional field is not Optional[str]")
    dflt_all = " ".join(_default_code(U, hi, n, t, dh[n]) for n, t, _ in hi.fields)
    rest = " ".join(_default_code(U, hi, n, t, dh[n]) for n, t, _ in hi.fields[2:])
    n2, t2, _ = hi.fields[1]
    if dh[n2] is not None:
        raise U.Unsupported("HashInfo: second field has a non-None default")
    u.out.append(f"(* {rel}:{f.lineno} HashInfo.from_dict *)\n"
                 "Definition HashInfo_from_dict (d : pydict) : res hashinfo :=\n"
                 "  match d with\n"
                 f"  | [] => Ok (mk_hashinfo {dflt_all})                          (* if not d: return cls() *)\n"
                 f"  | [(name, value)] => v <- {_reader(U, hi, n2, t2, None)} (Some value) ;; Ok (mk_hashinfo (Some name) v {rest})\n"
                 "  | _ => Err E_VALUE                                            (* too many values to unpack *)\n"
                 "  end.\n")

    # ---------------- DataIndexEntry.from_dict
    t_ix, rel = u.load("index/index.py")
    u.cur_rel = rel
    f = u.find_func(t_ix, "DataIndexEntry.from_dict")
    u.note(f)
    _check_classmethod(U, f, "DataIndexEntry.from_dict")
    de = _defaults(U, t_ix, "DataIndexEntry")
    u.note(next(n for n in t_ix.body if isinstance(n, ast.ClassDef) and n.name == "DataIndexEntry"))
    from_dicts = {"Meta": ("meta", "Meta_from_dict"), "HashInfo": ("hashinfo", "HashInfo_from_dict")}
    body = _body(f)
    if len(body) < 2 or ast.unparse(body[0]) != "ret = cls()" or ast.unparse(body[-1]) != "return ret":
        raise U.Unsupported("DataIndexEntry.from_dict: not `ret = cls()` ... `return ret`")
    cur = {n: _default_code(U, ent, n, t, de[n]) for n, t, _ in ent.fields}
    ftypes = {n: t for n, t, _ in ent.fields}
    lines = []
    fresh = 0
    i = 1
    mid = body[1:-1]
    k = 0
    while k < len(mid):
        s = mid[k]
        # x = d.get("name") ; if x: ret.F = C.from_dict(x)
        if (isinstance(s, ast.Assign) and len(s.targets) == 1 and isinstance(s.targets[0], ast.Name)
                and isinstance(s.value, ast.Call) and ast.unparse(s.value.func) == "d.get" and len(s.value.args) == 1
                and not s.value.keywords and isinstance(s.value.args[0], ast.Constant)
                and isinstance(s.value.args[0].value, str) and k + 1 < len(mid)):
            x = s.targets[0].id
            name = s.value.args[0].value
            g = mid[k + 1]
            ok = (isinstance(g, ast.If) and isinstance(g.test, ast.Name) and g.test.id == x and not g.orelse
                  and len(g.body) == 1 and isinstance(g.body[0], ast.Assign) and len(g.body[0].targets) == 1)
            if ok:
                tgt, val = g.body[0].targets[0], g.body[0].value
                ok = (isinstance(tgt, ast.Attribute) and ast.unparse(tgt.value) == "ret" and tgt.attr in ftypes
                      and isinstance(val, ast.Call) and isinstance(val.func, ast.Attribute)
                      and val.func.attr == "from_dict" and isinstance(val.func.value, ast.Name)
                      and val.func.value.id in from_dicts and len(val.args) == 1 and not val.keywords
                      and isinstance(val.args[0], ast.Name) and val.args[0].id == x)
            if not ok:
                raise U.Unsupported(f"DataIndexEntry.from_dict: unrecognised use of {x} = d.get({name!r})")
            coqrec, fn = from_dicts[val.func.value.id]
            if ftypes[tgt.attr] != ("opt", ("rec", coqrec)):
                raise U.Unsupported(f"DataIndexEntry.{tgt.attr} is not Optional[{val.func.value.id}]")
            # later statements must not use x again
            for later in mid[k + 2:]:
                if any(isinstance(nn, ast.Name) and nn.id == x for nn in ast.walk(later)):
                    raise U.Unsupported(f"DataIndexEntry.from_dict: {x} is used again")
            fresh += 1
            v = f"{tgt.attr}_{fresh}"
            lines.append(f"  {v} <- (sub <- truthy_subdict (dict_get d {U.lit_bytes(name)}) ;;        "
                         f"(* {x} = d.get({name!r}); if {x}: ret.{tgt.attr} = {val.func.value.id}.from_dict({x}) *)\n"
                         f"         match sub with Some x => r <- {fn} x ;; Ok (Some r) | None => Ok {cur[tgt.attr]} end) ;;")
            cur[tgt.attr] = v
            k += 2
            continue
        # ret.F = cast(T, d["name"])
        if (isinstance(s, ast.Assign) and len(s.targets) == 1 and isinstance(s.targets[0], ast.Attribute)
                and ast.unparse(s.targets[0].value) == "ret" and s.targets[0].attr in ftypes
                and isinstance(s.value, ast.Call) and ast.unparse(s.value.func) == "cast" and len(s.value.args) == 2
                and isinstance(s.value.args[1], ast.Subscript) and ast.unparse(s.value.args[1].value) == "d"
                and isinstance(s.value.args[1].slice, ast.Constant) and isinstance(s.value.args[1].slice.value, str)):
            attr = s.targets[0].attr
            name = s.value.args[1].slice.value
            fresh += 1
            v = f"{attr}_{fresh}"
            rd = _reader(U, ent, attr, ftypes[attr], None)
            lines.append(f"  {v} <- (x <- subscript d {U.lit_bytes(name)} ;; {rd} (Some x)) ;;        "
                         f"(* ret.{attr} = d[{name!r}] *)")
            cur[attr] = v
            k += 1
            continue
        raise U.Unsupported(f"DataIndexEntry.from_dict: statement {ast.unparse(s)[:80]}")
    u.out.append(f"(* {rel}:{f.lineno} DataIndexEntry.from_dict *)\n"
                 "Definition DataIndexEntry_from_dict (d : pydict) : res ientry :=\n" + "\n".join(lines) + "\n"
                 f"  Ok (mk_ientry {' '.join(cur[n] for n, _, _ in ent.fields)}).\n")
    return u
