#!/venv/bin/python
"""Fail-closed translator: selected small pure functions of /repo/src/dvc_data -> Gallina.
(units are registered in translator/units.py)"""
import argparse
import json
import os
import sys

sys.path.insert(0, os.path.dirname(os.path.abspath(__file__)))


def main():
    ap = argparse.ArgumentParser()
    ap.add_argument("--repo", default="/repo")
    ap.add_argument("--out", required=True)
    ap.add_argument("--all", action="store_true")
    ap.add_argument("--json", action="store_true")
    ap.add_argument("units", nargs="*")
    a = ap.parse_args()
    try:
        import units as U
    except ImportError:
        U = None
    reg = U.UNITS if U else {}
    names = list(reg) if a.all else a.units
    os.makedirs(a.out, exist_ok=True)
    info = {}
    rc = 0
    for n in names:
        if n not in reg:
            info[n] = {"ok": False, "error": f"unknown unit {n}"}
            rc = 1
            continue
        try:
            info[n] = U.translate_unit(n, a.repo, a.out)
        except Exception as exc:  # fail closed
            import traceback

            info[n] = {"ok": False, "error": f"{type(exc).__name__}: {exc}", "trace": traceback.format_exc()[-1500:]}
            rc = 1
    if a.json:
        print(json.dumps(info))
    else:
        for n, i in info.items():
            print(n, "ok" if i.get("ok") else "FAILED: " + str(i.get("error")))
    return rc


if __name__ == "__main__":
    sys.exit(main())
