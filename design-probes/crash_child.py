import os, sys, logging
scenario, root, kill_at = sys.argv[1], sys.argv[2], int(sys.argv[3])
os.chdir(root)
from dvc_objects.fs.local import localfs
from dvc_data.hashfile.db.local import LocalHashFileDB
from dvc_data.hashfile.state import State
from dvc_data.hashfile.build import build
from dvc_data.hashfile.transfer import transfer
from dvc_data.index import ObjectStorage, build as ibuild, md5 as imd5, save as isave
import dvc_data.hashfile.cache as cache_mod
logging.disable(logging.CRITICAL)
MUT = {"os.rename","os.chmod","os.remove","os.mkdir","os.rmdir","os.link","os.symlink","os.truncate","shutil.copyfile"}
count = [0]; on = [False]
def tick(tag):
    if not on[0]: return
    count[0] += 1
    if count[0] == kill_at:
        os._exit(77)
def hook(ev, args):
    if not on[0]: return
    if ev == "open":
        p, mode, flags = args
        if isinstance(p, str) and root in os.path.abspath(p) and "/st/" not in p and (flags & (os.O_WRONLY|os.O_RDWR|os.O_CREAT)): tick("open")
    elif ev in MUT:
        if any(isinstance(a, str) and "/cache" in a for a in args[:2]): tick(ev)
sys.addaudithook(hook)
orig_set_many = cache_mod.HashesCache.set_many
def set_many(self, items, retry=False):
    tick("state-before"); r = orig_set_many(self, items, retry); tick("state-after"); return r
cache_mod.HashesCache.set_many = set_many
st = State(root_dir=root, tmp_dir=os.path.join(root, "st"))
odb = LocalHashFileDB(localfs, os.path.join(root, "cache"), state=st)
on[0] = True
if scenario == "transfer":
    staging, meta, obj = build(odb, os.path.join(root, "ws"), localfs, "md5")
    transfer(staging, odb, {obj.hash_info}, shallow=False)
else:
    idx = imd5(ibuild(os.path.join(root, "ws"), localfs), state=st)
    idx.storage_map.add_cache(ObjectStorage((), odb))
    isave(idx)
on[0] = False
st.close()
print("EVENTS", count[0])
