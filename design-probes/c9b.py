import os, logging, shutil, hashlib, random, sys, stat
os.makedirs("/tmp/exp", exist_ok=True); os.chdir("/tmp/exp")
from dvc_objects.fs.local import localfs
from dvc_data.hashfile.db import HashFileDB
from dvc_data.hashfile.db.local import LocalHashFileDB
from dvc_data.hashfile.build import build
from dvc_data.hashfile.transfer import transfer
from dvc_data.hashfile.meta import Meta
from dvc_data.index import DataIndex, DataIndexEntry, ObjectStorage, build as ibuild, md5 as imd5, save as isave
from dvc_data.index.checkout import apply, compare
logging.disable(logging.CRITICAL)
R=random.Random(int(sys.argv[1]))
def gen(depth=0):
    t={}
    for n in "abc":
        r=R.random()
        if r<0.35: continue
        if depth<2 and r<0.6:
            for k,v in gen(depth+1).items(): t[n+"/"+k]=v
        else: t[n]=(R.choice([b"",b"A",b"B",b"C"]), R.random()<0.25)
    return t
def mk(root, tree):
    shutil.rmtree(root, ignore_errors=True); os.makedirs(root)
    for rel,(data,ex) in tree.items():
        p=os.path.join(root,rel); os.makedirs(os.path.dirname(p),exist_ok=True); open(p,"wb").write(data)
        if ex: os.chmod(p,0o755)
def snap(root):
    files={}; dirs=set()
    for r,ds,fs_ in os.walk(root):
        for d in ds: dirs.add(os.path.relpath(os.path.join(r,d),root))
        for f in fs_:
            p=os.path.join(r,f); files[os.path.relpath(p,root)]=(open(p,"rb").read(), bool(os.stat(p).st_mode & stat.S_IXUSR))
    return files,dirs
def dirs_of(t): return {"/".join(k.split("/")[:i]) for k in t for i in range(1,len(k.split("/")))}
stats={"ok":0,"dirleft":0,"kindfail":0,"other":0}
for trial in range(200):
    for d in ("cache","ws","src"): shutil.rmtree(d, ignore_errors=True)
    cls=R.choice([HashFileDB,LocalHashFileDB]); lt=R.choice(["copy","hardlink","symlink"])
    odb=cls(localfs, os.path.abspath("cache"), type=[lt])
    target=gen()
    while not target: target=gen()
    prior=gen() if R.random()<0.85 else dict(target)
    lazy=R.random()<0.4
    mk("src",target)
    if lazy:
        st,m,obj=build(odb, os.path.abspath("src"), localfs, "md5"); transfer(st, odb, {obj.hash_info}, shallow=False)
        new=DataIndex(); new[()]=DataIndexEntry(key=(), meta=Meta(isdir=True), hash_info=obj.hash_info)
        new.storage_map.add_cache(ObjectStorage((), odb))
    else:
        new=imd5(ibuild(os.path.abspath("src"), localfs)); new.storage_map.add_cache(ObjectStorage((), odb)); isave(new)
    mk("ws",prior)
    delete=R.random()<0.8
    errs=[]
    try:
        old=imd5(ibuild(os.path.abspath("ws"), localfs))
        apply(compare(old,new,delete=delete), os.path.abspath("ws"), localfs, onerror=lambda *a: errs.append(a), update_meta=False)
    except Exception as e:
        stats["other"]+=1; print("EXC", type(e).__name__, e, sorted(prior), sorted(target), lazy); continue
    files,dirs=snap("ws")
    # lazy (tree object) targets carry no exec bit in the listing -> compare bytes only there
    want={k:(v[0], v[1] if not lazy else files.get(k,(None,None))[1]) for k,v in target.items()}
    if delete:
        okfiles = files==want
        okdirs = dirs==dirs_of(target)
    else:
        okfiles = all(files.get(k)==v for k,v in want.items()) and all(files.get(k)==v for k,v in ((k,(d,e)) for k,(d,e) in prior.items() if k not in target and k not in dirs_of(target) and not any(k.startswith(t+"/") for t in target)))
        okdirs = dirs_of(target) <= dirs
    kindchange = bool((set(prior)&dirs_of(target))|(set(target)&dirs_of(prior)))
    if okfiles and okdirs: stats["ok"]+=1
    elif okfiles and not okdirs: stats["dirleft"]+=1
    elif kindchange: stats["kindfail"]+=1
    else:
        diffs={k:(files.get(k),want.get(k)) for k in set(files)|set(want) if files.get(k)!=want.get(k)}
        cat="execonly" if all(a is not None and b is not None and a[0]==b[0] and a[1] and not b[1] for a,b in diffs.values()) and okdirs else "REAL"
        stats[cat]=stats.get(cat,0)+1
        if cat=="REAL": print("OTHER", diffs, cls.__name__, lt, "lazy",lazy,"delete",delete,"errs",len(errs), "\n prior",sorted(prior),"\n target",sorted(target),"\n files",sorted(files),"dirs",sorted(dirs))
print(stats)
