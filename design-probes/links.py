import os, logging, shutil, hashlib, random
os.makedirs("/tmp/exp", exist_ok=True); os.chdir("/tmp/exp")
from dvc_objects.fs.local import LocalFileSystem, localfs
from dvc_objects.fs.system import inode
from dvc_data.hashfile.db import HashFileDB
from dvc_data.hashfile.db.local import LocalHashFileDB
from dvc_data.hashfile.build import build
from dvc_data.hashfile.transfer import transfer
from dvc_data.hashfile.checkout import checkout
from dvc_data.hashfile.state import State
from dvc_data.hashfile.utils import get_mtime_and_size
logging.disable(logging.CRITICAL)
def mk(root, tree):
    shutil.rmtree(root, ignore_errors=True); os.makedirs(root)
    for rel, data in tree.items():
        p = os.path.join(root, rel); os.makedirs(os.path.dirname(p), exist_ok=True); open(p,"wb").write(data)
target = {"a": b"A", "d/b": b"B", "d/e": b"", "d/dup": b"A", "d/x/y": b"Y"}
priors = [{}, {"a": b"old", "d/b": b"B"}, {"a": b"A", "d/b": b"B", "d/e": b"", "d/dup": b"A", "d/x/y": b"Y"}, {"zzz/extra": b"E", "d/x/y": b"Y"}]
for cls in (LocalHashFileDB, HashFileDB):
  for lt in ["copy","hardlink","symlink"]:
    for pi, prior in enumerate(priors):
      for relink in (False, True):
        for d in ("cache","st","ws","src"): shutil.rmtree(d, ignore_errors=True)
        st = State(root_dir=os.getcwd(), tmp_dir=os.path.abspath("st"))
        odb = cls(localfs, os.path.abspath("cache"), state=st, type=[lt])
        mk("src", target)
        staging, meta, obj = build(odb, os.path.abspath("src"), localfs, "md5")
        transfer(staging, odb, {obj.hash_info}, shallow=False)
        if prior: mk("ws", prior)
        ws = os.path.abspath("ws")
        checkout(ws, localfs, obj, odb, force=True, state=st, relink=relink)
        rec = st.links.get("ws")
        now = (inode(ws), get_mtime_and_size(ws, localfs)[0])
        ok = rec == now
        unused = st.get_unused_links([], localfs)
        print(cls.__name__, lt, "prior", pi, "relink", relink, "record matches:", ok, "unused:", unused)
        st.close()
print("done")
