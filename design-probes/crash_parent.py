import os, sys, subprocess, shutil, hashlib, stat, json, logging
from concurrent.futures import ThreadPoolExecutor
logging.disable(logging.CRITICAL)
ENV = dict(os.environ, PYTHONPATH="/repo/src", PYTHONHASHSEED="0")
def setup(root):
    shutil.rmtree(root, ignore_errors=True); os.makedirs(root+"/ws/d/e")
    open(root+"/ws/a","wb").write(b"AAA"); open(root+"/ws/d/b","wb").write(b"BBB"); open(root+"/ws/d/e/c","wb").write(b"AAA"); open(root+"/ws/z","wb").write(b"")
def run(scn, root, n):
    return subprocess.run(["/venv/bin/python","/tmp/exp/crash_child.py",scn,root,str(n)],env=ENV,capture_output=True,text=True)
def audit(root):
    sys.path.insert(0,"/repo/src")
    from dvc_objects.fs.local import localfs
    from dvc_data.hashfile.state import State
    issues=[]; listing={}
    croot=root+"/cache"
    st = State(root_dir=root, tmp_dir=root+"/st")
    for r,ds,fs_ in os.walk(croot):
        for f in fs_:
            p=os.path.join(r,f); rel=os.path.relpath(p,croot); parts=rel.split(os.sep)
            b=open(p,"rb").read(); mode=stat.S_IMODE(os.stat(p).st_mode)
            if len(parts)!=2 or f.endswith(".tmp"): listing["TMP"]=listing.get("TMP",0)+1; 
            oid="".join(parts); ok = hashlib.md5(b).hexdigest()==oid.split(".")[0]
            _,hi = st.get(p, localfs)
            vouched = hi is not None and hi.value == oid
            if not f.endswith(".tmp"): listing[oid]=(ok,oct(mode))
            if (mode==0o444 or hi is not None) and not ok: issues.append(("BLESSED-MISMATCH",oid,oct(mode),str(hi)))
            if oid.endswith(".dir") and not f.endswith(".tmp") and ok:
                for e in json.loads(b):
                    q=os.path.join(croot,e["md5"][:2],e["md5"][2:])
                    if not os.path.exists(q): issues.append(("OPEN-DIR",oid,e["md5"]))
    st.close()
    return issues, listing
for scn in ("transfer","save"):
    base="/tmp/exp/c_%s"%scn
    setup(base+"_full"); out=run(scn, base+"_full", 0); total=int(out.stdout.split()[-1]); _,full=audit(base+"_full")
    print(scn,"events",total,"final objects",len(full))
    def one(n):
        root=base+"_%d"%n; setup(root); r=run(scn,root,n)
        i1,l1=audit(root)
        r2=run(scn,root,0)
        i2,l2=audit(root)
        l2c={k:v for k,v in l2.items() if k!="TMP"}; fullc={k:v for k,v in full.items() if k!="TMP"}
        res=(n,r.returncode,i1,r2.returncode,i2,l2c==fullc, r2.stderr[-200:] if r2.returncode else "")
        shutil.rmtree(root, ignore_errors=True)
        return res
    with ThreadPoolExecutor(12) as ex:
        for n,rc,i1,rc2,i2,same,err in ex.map(one, range(1,total+1)):
            if i1 or i2 or not same or rc2!=0:
                print("  crash@%d rc=%s after-crash issues=%s | rerun rc=%s issues=%s same_as_full=%s %s"%(n,rc,i1,rc2,i2,same,err))
    shutil.rmtree(base+"_full", ignore_errors=True)
