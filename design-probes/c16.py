import os, subprocess, shutil, hashlib, json, random, stat, sys
R=random.Random(1)
ENV=dict(os.environ, PYTHONPATH="/repo/src", PYTHONHASHSEED="0")
bad=0
for trial in range(12):
    root="/tmp/exp/c16r"; shutil.rmtree(root, ignore_errors=True); os.makedirs(root)
    N=6; manifests=[]
    shared={("s%d"%i): os.urandom(R.choice([0,10,5000,200000])) for i in range(8)}
    for w in range(N):
        t={}
        for k,v in shared.items():
            if R.random()<0.8: t["d%d/%s"%(R.randrange(2),k)]=v
        t["uniq"]=b"w%d"%w
        for rel,data in t.items():
            p=os.path.join(root,"w%d"%w,rel); os.makedirs(os.path.dirname(p),exist_ok=True); open(p,"wb").write(data)
        manifests.append(t)
    procs=[subprocess.Popen(["/venv/bin/python","/tmp/exp/c16w.py",root,str(w)],env=ENV,stdout=subprocess.PIPE,stderr=subprocess.PIPE,text=True) for w in range(N)]
    outs=[p.communicate() for p in procs]
    for w,(p,(o,e)) in enumerate(zip(procs,outs)):
        if p.returncode!=0: bad+=1; print("WRITER FAILED", w, e[-300:])
    croot=root+"/cache"
    present={}
    for r,ds,fs_ in os.walk(croot):
        for f in fs_:
            p=os.path.join(r,f); rel=os.path.relpath(p,croot).split(os.sep)
            if f.endswith(".tmp") or len(rel)!=2: print("leftover", rel); continue
            oid="".join(rel); b=open(p,"rb").read()
            present[oid]=b
            if hashlib.md5(b).hexdigest()!=oid.split(".")[0]: bad+=1; print("MISMATCH", oid)
            if stat.S_IMODE(os.stat(p).st_mode)!=0o444: bad+=1; print("UNPROTECTED", oid)
    for w,t in enumerate(manifests):
        lst=sorted(({"md5":hashlib.md5(v).hexdigest(),"relpath":k} for k,v in t.items()), key=lambda d:d["relpath"])
        doid=hashlib.md5(json.dumps(lst,sort_keys=True).encode()).hexdigest()+".dir"
        if doid not in present: bad+=1; print("MISSING DIR", w)
        for e in lst:
            if e["md5"] not in present: bad+=1; print("MISSING FILE", w, e)
    shutil.rmtree(root, ignore_errors=True)
print("bad",bad)
