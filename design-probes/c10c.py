import os, logging, shutil, stat
os.makedirs("/tmp/exp", exist_ok=True); os.chdir("/tmp/exp")
from dvc_objects.fs.local import localfs
from dvc_data.hashfile.db.local import LocalHashFileDB
from dvc_data.hashfile.build import build
from dvc_data.hashfile.transfer import transfer
from dvc_data.hashfile.checkout import checkout
logging.disable(logging.CRITICAL)
for d in ("cache","ws","src"): shutil.rmtree(d, ignore_errors=True)
os.makedirs("src"); open("src/a","wb").write(b"SAME"); open("src/b","wb").write(b"SAME")
sym = LocalHashFileDB(localfs, os.path.abspath("cache"), type=["symlink"])
st, m, obj = build(sym, os.path.abspath("src"), localfs, "md5"); transfer(st, sym, {obj.hash_info}, shallow=False)
ws = os.path.abspath("ws")
checkout(ws, localfs, obj, sym, force=True)                       # both files are symlinks to the one cache object
os.unlink("ws/b"); open("ws/b","wb").write(b"edited")              # user replaces b
hard = LocalHashFileDB(localfs, os.path.abspath("cache"), type=["hardlink"])
checkout(ws, localfs, obj, hard, force=True)                      # b restored as a hard link -> cache object nlink == 2
checkout(ws, localfs, obj, hard, force=True, relink=True)         # relink: every file should become a hard link
for f in ("a","b"):
    s = os.lstat(os.path.join(ws,f)); print(f, "symlink" if stat.S_ISLNK(s.st_mode) else ("hardlink" if s.st_nlink>1 else "copy"))
