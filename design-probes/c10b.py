import os, logging, shutil, hashlib, stat, random, sys
os.makedirs("/tmp/exp", exist_ok=True); os.chdir("/tmp/exp")
from dvc_objects.fs.local import LocalFileSystem, localfs
from dvc_data.hashfile.db import HashFileDB
from dvc_data.hashfile.db.local import LocalHashFileDB
from dvc_data.hashfile.build import build
from dvc_data.hashfile.transfer import transfer
from dvc_data.hashfile.checkout import checkout
from dvc_data.hashfile.state import State
logging.disable(logging.CRITICAL)
R=random.Random(int(sys.argv[1]))
def mk(root, tree):
    shutil.rmtree(root, ignore_errors=True); os.makedirs(root)
    for rel, data in tree.items():
        p = os.path.join(root, rel); os.makedirs(os.path.dirname(p), exist_ok=True); open(p,"wb").write(data)
def gen(depth=0):
    t={}
    for n in "abc":
        r=R.random()
        if r<0.3: continue
        if depth<2 and r<0.5:
            for k,v in gen(depth+1).items(): t[n+"/"+k]=v
        else: t[n]=R.choice([b"",b"A",b"B",b"C",b"A"])
    return t
def kind_of(p, odb):
    st=os.lstat(p)
    if stat.S_ISLNK(st.st_mode): return "symlink" if os.readlink(p).startswith(odb.path) else "symlink?"
    return "hardlink" if st.st_nlink>1 else "copy"
def cache_snap(odb): return {o:(open(odb.oid_to_path(o),"rb").read()) for o in odb.all()}
bad=0
for trial in range(250):
    for d in ("cache","st","ws","src","src0"): shutil.rmtree(d, ignore_errors=True)
    cls=R.choice([HashFileDB, LocalHashFileDB]); t0=R.choice(["copy","hardlink","symlink"]); t1=R.choice(["copy","hardlink","symlink"])
    st=State(root_dir=os.getcwd(), tmp_dir=os.path.abspath("st")) if R.random()<0.6 else None
    kw={"state":st} if st else {}
    odb0=cls(localfs, os.path.abspath("cache"), type=[t0], **kw)
    prior=gen(); target=gen()
    while not target: target=gen()
    # materialise prior with link type t0 via a checkout of prior
    if prior:
        mk("src0", prior); s0,m0,o0=build(odb0, os.path.abspath("src0"), localfs, "md5"); transfer(s0, odb0, {o0.hash_info}, shallow=False)
        try: checkout(os.path.abspath("ws"), localfs, o0, odb0, force=True, state=st)
        except Exception as e: print("prior checkout exc", e); continue
    mk("src", target); s1,m1,o1=build(odb0, os.path.abspath("src"), localfs, "md5"); transfer(s1, odb0, {o1.hash_info}, shallow=False)
    # user edits: modify some files in ws (unlink first so links are not written through), add extra
    if prior and R.random()<0.5:
        k=R.choice(sorted(prior)); p=os.path.join("ws",k); os.unlink(p); open(p,"wb").write(b"EDIT")
    odb=cls(localfs, os.path.abspath("cache"), type=[t1], **kw)
    before=cache_snap(odb)
    # kinds must agree: skip if prior/target conflict in kind
    def dirs(t): return {"/".join(k.split("/")[:i]) for k in t for i in range(1,len(k.split("/")))}
    conflict = bool((set(prior)&dirs(target)) | (set(target)&dirs(prior)))
    if conflict: continue
    try:
        r1=checkout(os.path.abspath("ws"), localfs, o1, odb, force=True, state=st)
        r2=checkout(os.path.abspath("ws"), localfs, o1, odb, force=True, state=st)
        r3=checkout(os.path.abspath("ws"), localfs, o1, odb, force=True, state=st, relink=True)
    except Exception as e:
        print("EXC", type(e).__name__, e, sorted(prior), sorted(target)); continue
    after=cache_snap(odb)
    got={}
    for r,ds,fs_ in os.walk("ws"):
        for f in fs_:
            p=os.path.join(r,f); got[os.path.relpath(p,"ws")]=(open(p,"rb").read(), kind_of(p, odb))
    okbytes={k:v[0] for k,v in got.items()}==target
    kinds={k:v[1] for k,v in got.items()}
    okkinds=all(v==t1 or (t1=="hardlink" and target[k]==b"" and v=="copy") for k,v in kinds.items())
    if not okbytes or r2 is not None or before!=after or not okkinds:
        bad+=1; print("BAD", cls.__name__, t0,"->",t1, "bytes",okbytes,"r2",r2,"cache same",before==after,"kinds",kinds, sorted(prior), sorted(target))
    if st: st.close()
print("bad",bad)
