import random, collections
from dvc_data.hashfile.hash_info import HashInfo
from dvc_data.hashfile.meta import Meta
from dvc_data.index import DataIndex, DataIndexEntry
from dvc_data.index.diff import diff, ADD, DELETE, RENAME, MODIFY, UNCHANGED
R=random.Random(5)
def gen():
    e={}
    for n in "abcdefg":
        if R.random()<0.45: continue
        if R.random()<0.3:
            k=("d",n)
            e[("d",)]=DataIndexEntry(key=("d",), meta=Meta(isdir=True), loaded=True)
        else: k=(n,)
        hi=R.choice([None, HashInfo("md5","h1"), HashInfo("md5","h1"), HashInfo("md5","h2"), HashInfo("md5","h3"), HashInfo("md5","")])
        e[k]=DataIndexEntry(key=k, meta=R.choice([None,Meta(),Meta(size=1)]), hash_info=hi)
    return e
def mk(e):
    i=DataIndex()
    for k,v in e.items(): i[k]=v
    return i
bad=0
for trial in range(4000):
    o,n=gen(),gen()
    plain=list(diff(mk(o),mk(n)))
    ren=list(diff(mk(o),mk(n),with_renames=True))
    adds=[c for c in plain if c.typ==ADD]; dels=[c for c in plain if c.typ==DELETE]; rest=[c for c in plain if c.typ not in (ADD,DELETE)]
    r=[c for c in ren if c.typ==RENAME]; ra=[c for c in ren if c.typ==ADD]; rd=[c for c in ren if c.typ==DELETE]; rrest=[c for c in ren if c.typ not in (ADD,DELETE,RENAME)]
    ok=True
    # each rename pairs one deleted and one added key with same truthy hash
    for c in r:
        if not (c.old.hash_info and c.new.hash_info and c.old.hash_info==c.new.hash_info): ok=False
    # partition: added keys = renamed-new + remaining adds ; deleted keys = renamed-old + remaining dels, no duplicates
    if collections.Counter(c.key for c in adds)!=collections.Counter([c.new.key for c in r]+[c.key for c in ra]): ok=False
    if collections.Counter(c.key for c in dels)!=collections.Counter([c.old.key for c in r]+[c.key for c in rd]): ok=False
    if collections.Counter((c.typ,c.key) for c in rest)!=collections.Counter((c.typ,c.key) for c in rrest): ok=False
    # maximal: no leftover add and delete share a truthy hash
    lh={c.new.hash_info for c in ra if c.new.hash_info}; dh={c.old.hash_info for c in rd if c.old.hash_info}
    if lh & dh: ok=False
    if not ok: bad+=1; print("BAD", {k:(v.hash_info and v.hash_info.value) for k,v in o.items()}, {k:(v.hash_info and v.hash_info.value) for k,v in n.items()}, [(c.typ, c.old and c.old.key, c.new and c.new.key) for c in ren])
print("bad",bad)
