import os, logging, shutil, hashlib, random, json, stat, sys
os.makedirs("/tmp/exp", exist_ok=True); os.chdir("/tmp/exp")
from dvc_objects.fs.local import LocalFileSystem, localfs
from dvc_data.hashfile.db import HashFileDB
from dvc_data.hashfile.db.local import LocalHashFileDB
from dvc_data.hashfile.db.migrate import prepare, migrate
from dvc_data.hashfile.build import build
from dvc_data.hashfile.transfer import transfer
from dvc_data.hashfile.tree import Tree
from dvc_data.hashfile.hash_info import HashInfo
from dvc_data.hashfile.istextfile import istextblock
from dvc_data.index import ObjectStorage, build as ibuild, md5 as imd5, save as isave
logging.disable(logging.CRITICAL)
R=random.Random(int(sys.argv[1]))
def mk(root, tree):
    shutil.rmtree(root, ignore_errors=True); os.makedirs(root)
    for rel, data in tree.items():
        p = os.path.join(root, rel); os.makedirs(os.path.dirname(p), exist_ok=True); open(p,"wb").write(data)
def gen(depth=0):
    t={}
    for n in ["a","b","ü","c d"]:
        r=R.random()
        if r<0.35: continue
        if depth<2 and r<0.6:
            for k,v in gen(depth+1).items(): t[n+"/"+k]=v
        else: t[n]=R.choice([b"",b"A",b"B",b"x\r\ny\r\n",b"x\ny\n",b"\x00bin\r\n"])
    return t
def digest(alg, b):
    if alg=="md5-dos2unix":
        return hashlib.md5(b.replace(b"\r\n",b"\n") if (istextblock(b[:512]) if b else False) else b).hexdigest()
    return hashlib.new(alg,b).hexdigest()
def audit(odb, tag):
    n=0
    for o in odb.all():
        p=odb.oid_to_path(o); b=open(p,"rb").read(); n+=1
        if o.endswith(".dir"):
            ok = digest(odb.hash_name, b)+".dir"==o and isinstance(json.loads(b), list)
        else: ok = digest(odb.hash_name, b)==o
        if not ok: print("NAME MISMATCH", tag, type(odb).__name__, odb.hash_name, o); return 1
        if isinstance(odb, LocalHashFileDB) and stat.S_IMODE(os.stat(p).st_mode)!=0o444: print("NOT PROTECTED", tag, o); return 1
    return 0
bad=0
for trial in range(40):
    for d in os.listdir("."):
        if d.startswith("store") or d in ("ws",): shutil.rmtree(d, ignore_errors=True)
    alg=R.choice(["md5","md5","md5-dos2unix"])
    stores=[R.choice([HashFileDB,LocalHashFileDB])(LocalFileSystem(), os.path.abspath("store%d"%i), hash_name=alg) for i in range(3)]
    objs=[]
    for step in range(R.randint(3,8)):
        op=R.choice(["stage","stage","save","transfer","migrate"])
        try:
            if op=="stage":
                t=gen()
                while not t: t=gen()
                single = R.random()<0.2
                mk("ws", t)
                s=R.choice(stores)
                path=os.path.abspath("ws") if not single else os.path.join(os.path.abspath("ws"), sorted(t)[0])
                staging,meta,obj=build(s, path, localfs, alg)
                transfer(staging, s, {obj.hash_info}, shallow=False)
                objs.append((s,obj.hash_info))
            elif op=="save" and alg=="md5":
                t=gen()
                while not t: t=gen()
                mk("ws", t); s=R.choice(stores)
                idx=imd5(ibuild(os.path.abspath("ws"), localfs)); idx.storage_map.add_cache(ObjectStorage((), s)); isave(idx)
            elif op=="transfer" and objs:
                s,hi=R.choice(objs); d=R.choice([x for x in stores if x is not s])
                req={hi}
                transfer(s, d, req, shallow=False); objs.append((d,hi))
            elif op=="migrate":
                s=R.choice(stores); newalg="md5" if alg!="md5" else "sha256"
                dst=LocalHashFileDB(LocalFileSystem(), os.path.abspath("store_m%d"%step), hash_name=newalg)
                migrate(prepare(s,dst)); bad+=audit(dst,"migrate")
        except Exception as e:
            print("EXC", op, type(e).__name__, e); bad+=1
        for s in stores: bad+=audit(s, op)
print("bad",bad)
