import os, random, shutil, json, itertools
os.makedirs("/tmp/exp", exist_ok=True); os.chdir("/tmp/exp")
from dvc_data.hashfile.hash_info import HashInfo
from dvc_data.hashfile.meta import Meta
from dvc_data.hashfile.tree import Tree
from dvc_data.index import DataIndex, DataIndexEntry, read_db, read_json, write_db, write_json
R = random.Random(2)
def rmeta():
    if R.random()<0.15: return None
    return Meta(isdir=R.random()<0.2, size=R.choice([None,0,1,10**12]), nfiles=R.choice([None,0,3]), isexec=R.random()<0.3,
                version_id=R.choice([None,"","v1"]), etag=R.choice([None,"","e\"t"]), checksum=R.choice([None,"","c"]), md5=R.choice([None,"","m"]),
                inode=R.choice([None,0,5]), mtime=R.choice([None,0.0,1.5]), remote=R.choice([None,"","r"]), is_link=R.random()<0.2, destination=R.choice([None,"d"]), nlink=R.choice([1,2]))
def rhi():
    r=R.random()
    if r<0.2: return None
    return HashInfo(R.choice(["md5","md5-dos2unix","sha256",None,""]), R.choice(["abc","abc.dir","",None,"ü"]))
PARTS=["a","ü","日本","sp ace","q\"","b\\","n\nl","..",".", "😀"]
def proj(e):
    return ((e.meta.to_dict() if e.meta is not None else {}), (e.hash_info.to_dict() if e.hash_info is not None else {}), e.loaded)
bad=0
for trial in range(300):
    ents={}
    for _ in range(R.randint(1,8)):
        k=tuple(R.choice(PARTS) for _ in range(R.randint(1,3)))
        ents[k]=DataIndexEntry(key=k, meta=rmeta(), hash_info=rhi(), loaded=R.choice([None,True,False]))
    # dict roundtrips
    for e in ents.values():
        e2=DataIndexEntry.from_dict(e.to_dict())
        if proj(e2)!=proj(e): bad+=1; print("ENTRY", e, e2)
        if e.meta is not None and Meta.from_dict(e.meta.to_dict()).to_dict()!=e.meta.to_dict(): bad+=1; print("META", e.meta)
        if e.hash_info is not None and HashInfo.from_dict(e.hash_info.to_dict()).to_dict()!=e.hash_info.to_dict(): bad+=1; print("HI", e.hash_info)
    idx=DataIndex(ents)
    for w,r,p in ((write_json,read_json,"i.json"),(write_db,read_db,"i.db")):
        if os.path.isdir(p): shutil.rmtree(p)
        elif os.path.exists(p): os.unlink(p)
        w(idx,p); i2=r(p)
        a={k:proj(e) for k,e in idx.iteritems()}; b={k:proj(e) for k,e in i2.iteritems()}
        if a!=b: bad+=1; print("INDEX", p, set(a)^set(b), [k for k in a if k in b and a[k]!=b[k]][:3])
    # sqlite
    p="s.db"
    for f in (p,p+"-wal",p+"-shm"):
        if os.path.exists(f): os.unlink(f)
    si=DataIndex.open(p)
    ents2=dict(ents); ents2[()]=DataIndexEntry(key=(), meta=Meta(isdir=True), loaded=True)
    for k,e in ents2.items(): si[k]=e
    si.commit(); si.close()
    s2=DataIndex.open(p)
    a={k:proj(e) for k,e in ents2.items()}; b={k:proj(e) for k,e in s2._trie.items()}
    if a!=b: bad+=1; print("SQLITE", set(a)^set(b), [ (k,a[k],b[k]) for k in a if k in b and a[k]!=b[k]][:3])
    s2.close()
print("bad",bad)
