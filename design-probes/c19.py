import itertools, collections
from dvc_data.hashfile.tree import _merge, MergeError
from dvc_data.hashfile.hash_info import HashInfo
from dvc_data.hashfile.meta import Meta
KEYS=[("a",),("d","b")]
VALS=[None,"1","2"]
def mk(assign): return {k:(None, HashInfo("md5",v)) for k,v in zip(KEYS,assign) if v is not None}
def merge3(a,o,t):
    out={}
    for k in set(a)|set(o)|set(t):
        av,ov,tv=a.get(k),o.get(k),t.get(k)
        if ov==tv: r=ov
        elif ov==av: r=tv
        elif tv==av: r=ov
        else: return None
        if r is not None: out[k]=r
    return out
POL=[None,["add"],["add","remove"],["add","change"],["remove","change"],["add","remove","change"]]
stats=collections.Counter(); shown=0
dicts=[mk(x) for x in itertools.product(VALS,repeat=len(KEYS))]
for a,o,t in itertools.product(dicts,repeat=3):
    ref=merge3(a,o,t)
    for pol in POL:
        try:
            r=_merge(a,o,t,allowed=pol); kind="ok"
        except MergeError: r=None; kind="merr"
        except Exception as e: r=None; kind=type(e).__name__
        try:
            r2=_merge(a,t,o,allowed=pol); kind2="ok"
        except MergeError: r2=None; kind2="merr"
        except Exception as e: r2=None; kind2=type(e).__name__
        if kind=="ok":
            if ref is None: stats["OK-but-conflict"]+=1; 
            elif r!=ref:
                stats["OK-wrong"]+=1
                if shown<5: shown+=1; print("WRONG",pol,a,o,t,"->",r,"ref",ref)
            else: stats["ok-right"]+=1
            if kind2=="ok" and r!=r2: stats["asym"]+=1
        elif kind=="merr": stats["merr"]+=1
        else:
            stats[kind]+=1
print(stats)
