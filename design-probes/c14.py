import io, hashlib, random, os
from dvc_data.hashfile.hash import HashStreamFile, Dos2UnixHashStreamFile, get_hash_stream, fobj_md5, dos2unix
from dvc_data.hashfile.istextfile import istextblock
R=random.Random(4)
def rnd(n):
    mode=R.choice(["text","bin","mixed","crlf"])
    if mode=="text": return bytes(R.choice(b"abc \n\t") for _ in range(n))
    if mode=="bin": return os.urandom(n)
    if mode=="crlf": return (b"line\r\n"*(n//6+1))[:n]
    return bytes(R.choice(b"ab\r\n\x00\x80\xff") for _ in range(n))
bad=0
for trial in range(3000):
    n=R.choice([0,1,2,100,511,512,513,1023,1024,1025,3000])
    data=rnd(n)
    alg=R.choice(["md5","MD5","sha256","Sha1","sha512","blake2b","blake3"])
    s=HashStreamFile(io.BytesIO(data), alg); chunks=[]
    while True:
        k=R.choice([1,2,7,512,513,4096,-1])
        c=s.read(k)
        if not c: break
        chunks.append(c)
    import blake3
    ref = blake3.blake3(data).hexdigest() if alg=="blake3" else hashlib.new(alg.lower(), data).hexdigest()
    if b"".join(chunks)!=data or s.total_read!=len(data) or s.hash_value!=ref: bad+=1; print("STREAM", alg, n)
    # chunked driver
    cs=R.choice([1,3,512,513,2**20])
    if fobj_md5(io.BytesIO(data), chunk_size=cs, name="md5")!=hashlib.md5(data).hexdigest(): bad+=1; print("DRIVER", n, cs)
    # dos2unix single read
    d=Dos2UnixHashStreamFile(io.BytesIO(data), "md5-dos2unix"); out=d.read(max(512, n+1))
    is_text = istextblock(data[:512]) if data else False
    want = hashlib.md5(dos2unix(data) if is_text else data).hexdigest()
    if out!=data or d.hash_value!=want: bad+=1; print("D2U", n)
    # LF/CRLF twin
    if b"\r\n" not in data and is_text:
        twin=data.replace(b"\n", b"\r\n")
        if istextblock(twin[:512]):
            h1=fobj_md5(io.BytesIO(data), name="md5-dos2unix"); h2=fobj_md5(io.BytesIO(twin), name="md5-dos2unix")
            # careful: data may contain \r before \n after replacement -> only when no '\r' directly before '\n' originally
            if h1!=h2 and b"\r\n" not in data: bad+=1; print("TWIN", repr(data[:40]))
print("bad",bad)
# case variants of dos2unix name
print("MD5-DOS2UNIX class:", type(get_hash_stream(io.BytesIO(b"a\r\nb"), "MD5-DOS2UNIX")).__name__, fobj_md5(io.BytesIO(b"a\r\nb"), name="MD5-DOS2UNIX")==hashlib.md5(b"a\r\nb").hexdigest())
