"""Design-time reproduction of the seven candidate defects of DESIGN.md section 7.

Throw-away experiment, NOT part of the verification machinery: it only shows, against the
real code in /repo, the concrete inputs found while reading.  Run with

    PYTHONPATH=/repo/src PYTHONHASHSEED=0 /venv/bin/python design-probes/repro_findings.py

Each finding prints one line `7.x <property> REPRODUCED|not reproduced : <what was observed>`.
Everything happens in a fresh temporary directory that is removed at the end.
"""

import hashlib
import logging
import os
import shutil
import stat
import tempfile

from dvc_objects.fs.local import LocalFileSystem, localfs

from dvc_data.hashfile.build import build
from dvc_data.hashfile.checkout import checkout
from dvc_data.hashfile.db import HashFileDB, get_index
from dvc_data.hashfile.db.local import LocalHashFileDB
from dvc_data.hashfile.gc import gc
from dvc_data.hashfile.hash_info import HashInfo
from dvc_data.hashfile.state import State
from dvc_data.hashfile.transfer import transfer
from dvc_data.hashfile.tree import MergeError, Tree, _merge
from dvc_data.index import ObjectStorage
from dvc_data.index import build as ibuild
from dvc_data.index import md5 as imd5
from dvc_data.index import save as isave
from dvc_data.index.checkout import apply, compare

logging.disable(logging.CRITICAL)


def mk(root, tree):
    shutil.rmtree(root, ignore_errors=True)
    os.makedirs(root)
    for rel, data in tree.items():
        p = os.path.join(root, rel)
        os.makedirs(os.path.dirname(p), exist_ok=True)
        with open(p, "wb") as f:
            f.write(data)


def stage(odb, root, tree):
    mk(root, tree)
    staging, _, obj = build(odb, os.path.abspath(root), localfs, "md5")
    transfer(staging, odb, {obj.hash_info}, shallow=False)
    return obj


def report(tag, ok, what):
    print(f"{tag} {'REPRODUCED' if ok else 'not reproduced'} : {what}")


def f71_gc_expand():
    odb = LocalHashFileDB(localfs, os.path.abspath("c71"))
    obj = stage(odb, "w71", {"a": b"A", "d/b": b"B"})
    try:
        n = gc(odb, [obj.hash_info], shallow=False, dry=True)
        report("7.1 C06", False, f"gc returned {n}")
    except ValueError as exc:
        report("7.1 C06", True, f"gc(shallow=False) raised ValueError: {exc}")


def closure_violations(dest):
    present = set(dest.all())
    bad = []
    for oid in present:
        if oid.endswith(".dir"):
            for _, _, hi in Tree.load(dest, HashInfo("md5", oid)):
                if hi.value not in present:
                    bad.append((oid[:8] + ".dir", hi.value[:8]))
    return bad


def f72_transfer_shared_file():
    src = LocalHashFileDB(localfs, os.path.abspath("c72"))
    o1 = stage(src, "w72a", {"a": b"shared", "x": b"one"})
    o2 = stage(src, "w72b", {"b": b"shared", "y": b"two"})
    shared = hashlib.md5(b"shared").hexdigest()
    req = set()
    for o in (o1, o2):
        req.add(o.hash_info)
        req |= {hi for _, _, hi in Tree.load(src, o.hash_info)}
    destfs = LocalFileSystem()
    orig = destfs.fs.put_file
    failing = {shared}

    def put_file(lpath, rpath, **kw):
        if "".join(rpath.split(os.sep)[-2:]) in failing:
            raise OSError(5, "injected upload failure")
        return orig(lpath, rpath, **kw)

    destfs.fs.put_file = put_file
    dest = HashFileDB(destfs, os.path.abspath("r72"), tmp_dir=os.path.abspath("t72"))
    index = get_index(dest)  # the remote index, as index-level push uses it
    res = transfer(src, dest, req, dest_index=index, cache_odb=src)
    bad = closure_violations(dest)
    failing.clear()
    transfer(src, dest, req, dest_index=index, cache_odb=src)  # clean retry
    still_missing = shared not in set(dest.all())
    index.close()
    report(
        "7.2 C04",
        bool(bad),
        f"after a failed upload of a file shared by two directories: dir objects without "
        f"their file {bad}; failed={sorted(h.value[:8] for h in res.failed)}; "
        f"shared file still missing after a clean retry: {still_missing}",
    )


def f73_index_checkout_dirs():
    odb = LocalHashFileDB(localfs, os.path.abspath("c73"))

    def run(prior, target):
        mk("s73", target)
        new = imd5(ibuild(os.path.abspath("s73"), localfs))
        new.storage_map.add_cache(ObjectStorage((), odb))
        isave(new)
        mk("w73", prior)
        old = imd5(ibuild(os.path.abspath("w73"), localfs))
        errs = []
        apply(
            compare(old, new, delete=True),
            os.path.abspath("w73"),
            localfs,
            onerror=lambda *a: errs.append(a),
            update_meta=False,
        )
        left = sorted(
            os.path.relpath(os.path.join(r, n), "w73") + ("/" if n in ds else "")
            for r, ds, fs_ in os.walk("w73")
            for n in ds + fs_
        )
        d2 = compare(imd5(ibuild(os.path.abspath("w73"), localfs)), new, delete=True)
        return left, len(errs), [e.key for e in d2.dirs_delete + d2.files_create]

    left1, _, todo1 = run({"a/b/c": b"x", "keep": b"k"}, {"keep": b"k"})
    left2, errs2, todo2 = run({"a/b/c": b"x"}, {"a": b"file"})
    report(
        "7.3 C09",
        bool(todo1) and bool(todo2),
        f"nested removal leaves {left1}, second compare still wants {todo1}; "
        f"dir->file leaves {left2} with {errs2} onerror call(s), second compare wants {todo2}",
    )


def f74_merge_keyerror():
    k = ("subdir", "foo")
    anc = {k: HashInfo("md5", "123")}
    changed = {k: HashInfo("md5", "456")}
    allowed = ["add", "remove", "change"]
    kinds = []
    for ours, theirs in ((changed, {}), ({}, changed)):
        try:
            _merge(anc, ours, theirs, allowed=allowed)
            kinds.append("ok")
        except MergeError:
            kinds.append("MergeError")
        except Exception as exc:  # noqa: BLE001
            kinds.append(type(exc).__name__)
    report(
        "7.4 C19",
        kinds == ["MergeError", "KeyError"],
        f"change-vs-remove conflict raises {kinds[0]}, remove-vs-change raises {kinds[1]}",
    )


def f75_transfer_result():
    src = LocalHashFileDB(localfs, os.path.abspath("c75"))
    obj = stage(src, "w75", {"a": b"victim", "b": b"other"})
    victim = hashlib.md5(b"victim").hexdigest()
    req = {obj.hash_info} | {hi for _, _, hi in Tree.load(src, obj.hash_info)}
    p = src.oid_to_path(victim)
    os.chmod(p, 0o644)
    os.unlink(p)
    dest = HashFileDB(LocalFileSystem(), os.path.abspath("r75a"))
    res = transfer(src, dest, req)
    lied_a = {h.value for h in res.transferred} - set(dest.all())
    with open(p, "wb") as f:
        f.write(b"CORRUPT")
    os.chmod(p, 0o444)
    dest = HashFileDB(LocalFileSystem(), os.path.abspath("r75b"))
    res = transfer(src, dest, req, verify=True)
    lied_b = {h.value for h in res.transferred} - set(dest.all())
    report(
        "7.5 C11",
        bool(lied_a) and bool(lied_b),
        f"(a) file missing on both sides: reported transferred but absent "
        f"{sorted(x[:8] for x in lied_a)}; (b) corrupt source under verify: reported "
        f"transferred but absent {sorted(x[:8] for x in lied_b)}, open directories "
        f"{closure_violations(dest)}",
    )


def f76_rerun_blesses_leftover():
    st = State(root_dir=os.getcwd(), tmp_dir=os.path.abspath("st76"))
    odb = LocalHashFileDB(localfs, os.path.abspath("c76"), state=st)
    mk("w76", {"d/a": b"AAA", "b": b"BBB"})
    oid = hashlib.md5(b"AAA").hexdigest()
    p = odb.oid_to_path(oid)
    os.makedirs(os.path.dirname(p))
    open(p, "wb").close()  # what a crash inside the reflink probe leaves behind
    idx = imd5(ibuild(os.path.abspath("w76"), localfs))
    idx.storage_map.add_cache(ObjectStorage((), odb))
    isave(idx)  # the re-run
    mode = stat.S_IMODE(os.stat(p).st_mode)
    mismatch = hashlib.md5(open(p, "rb").read()).hexdigest() != oid
    _, hi = st.get(p, localfs)
    report(
        "7.6 C15",
        mismatch and mode == 0o444 and hi is not None,
        f"after the re-run the leftover is mismatching={mismatch}, mode={oct(mode)}, "
        f"state row={hi}, oids_exist={bool(odb.oids_exist([oid]))}",
    )
    st.close()


def f77_relink_symlink():
    sym = LocalHashFileDB(localfs, os.path.abspath("c77"), type=["symlink"])
    obj = stage(sym, "s77", {"a": b"SAME", "b": b"SAME"})
    ws = os.path.abspath("w77")
    checkout(ws, localfs, obj, sym, force=True)
    os.unlink(os.path.join(ws, "b"))
    with open(os.path.join(ws, "b"), "wb") as f:
        f.write(b"edited")
    hard = LocalHashFileDB(localfs, os.path.abspath("c77"), type=["hardlink"])
    checkout(ws, localfs, obj, hard, force=True)
    checkout(ws, localfs, obj, hard, force=True, relink=True)
    kinds = {}
    for name in ("a", "b"):
        s = os.lstat(os.path.join(ws, name))
        kinds[name] = (
            "symlink"
            if stat.S_ISLNK(s.st_mode)
            else ("hardlink" if s.st_nlink > 1 else "copy")
        )
    report(
        "7.7 C10",
        kinds["a"] == "symlink",
        f"after relink=True with type=hardlink: {kinds}",
    )


def main():
    cwd = os.getcwd()
    tmp = tempfile.mkdtemp(prefix="dvc-data-design-probe-")
    os.chdir(tmp)
    try:
        for fn in (
            f71_gc_expand,
            f72_transfer_shared_file,
            f73_index_checkout_dirs,
            f74_merge_keyerror,
            f75_transfer_result,
            f76_rerun_blesses_leftover,
            f77_relink_symlink,
        ):
            fn()
    finally:
        os.chdir(cwd)
        shutil.rmtree(tmp, ignore_errors=True)


if __name__ == "__main__":
    main()
