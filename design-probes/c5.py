import os, logging, shutil, hashlib, random, sys
os.makedirs("/tmp/exp", exist_ok=True); os.chdir("/tmp/exp")
from dvc_objects.fs.local import LocalFileSystem, localfs
from dvc_data.hashfile.db import HashFileDB
from dvc_data.hashfile.db.local import LocalHashFileDB
from dvc_data.hashfile.build import build
from dvc_data.hashfile.transfer import transfer
from dvc_data.hashfile.checkout import checkout, PromptError, CheckoutError, LinkError
from dvc_data.hashfile.state import State
logging.disable(logging.CRITICAL)
R = random.Random(int(sys.argv[1]))
CONT = [b"", b"A", b"B", b"C", b"D"]
NAMES = ["a","b","c"]
def gen(depth=0):
    t = {}
    for n in NAMES:
        r = R.random()
        if r < 0.3: continue
        if depth < 2 and r < 0.55:
            for k, v in gen(depth+1).items(): t[n+"/"+k] = v
        else: t[n] = R.choice(CONT)
    return t
def mk(root, tree):
    shutil.rmtree(root, ignore_errors=True); os.makedirs(root)
    for rel, data in tree.items():
        p = os.path.join(root, rel); os.makedirs(os.path.dirname(p), exist_ok=True); open(p,"wb").write(data)
def snap(root):
    out = {}
    for r, ds, fs_ in os.walk(root):
        for f in fs_:
            p=os.path.join(r,f); out[os.path.relpath(p, root)] = open(p,"rb").read()
    return out
stats = {"prompt":0,"ok":0,"lost":0,"kindexc":0, "other":0}
for trial in range(200):
    for d in ("cache","st","ws","src","src2"): shutil.rmtree(d, ignore_errors=True)
    cls = R.choice([HashFileDB, LocalHashFileDB]); lt = R.choice(["copy","hardlink","symlink"])
    st = State(root_dir=os.getcwd(), tmp_dir=os.path.abspath("st")) if R.random()<0.5 else None
    kw = {"state": st} if st else {}
    odb = cls(localfs, os.path.abspath("cache"), type=[lt], **kw)
    target = gen()
    while not target: target = gen()
    mk("src", target)
    staging, meta, obj = build(odb, os.path.abspath("src"), localfs, "md5")
    transfer(staging, odb, {obj.hash_info}, shallow=False)
    # optionally cache a second version so some prior content is recoverable
    other = gen()
    if other and R.random()<0.5:
        mk("src2", other); s2, m2, o2 = build(odb, os.path.abspath("src2"), localfs, "md5"); transfer(s2, odb, {o2.hash_info}, shallow=False)
    prior = gen() if R.random()<0.8 else dict(target)
    if R.random()<0.5:
        for k in list(target)[:2]: prior.setdefault(k, target[k])
    try: mk("ws", prior)
    except OSError: continue
    before = snap("ws")
    cached = {hashlib.md5(open(odb.oid_to_path(o),"rb").read()).hexdigest() for o in odb.all() if not o.endswith(".dir")}
    try:
        checkout(os.path.abspath("ws"), localfs, obj, odb, force=False, state=st, relink=R.random()<0.3, prompt=R.choice([None, lambda m: False]))
        stats["ok"] += 1
    except PromptError as e:
        stats["prompt"] += 1
    except (CheckoutError, LinkError, OSError) as e:
        stats["kindexc"] += 1
    except Exception as e:
        stats["other"] += 1; print("OTHER", type(e).__name__, e)
    after = snap("ws") if os.path.isdir("ws") else ({"": open("ws","rb").read()} if os.path.exists("ws") else {})
    for p, b in before.items():
        if after.get(p) != b and hashlib.md5(b).hexdigest() not in cached:
            stats["lost"] += 1; print("LOST uncached", p, b, "target", sorted(target), "prior", sorted(prior), cls.__name__, lt)
    if st: st.close()
print(stats)
