import os, logging, shutil, random, sys
os.makedirs("/tmp/exp", exist_ok=True); os.chdir("/tmp/exp")
from dvc_objects.fs.local import localfs
from dvc_data.hashfile.db import get_odb
from dvc_data.hashfile.build import build
from dvc_data.hashfile.transfer import transfer
from dvc_data.hashfile.meta import Meta
from dvc_data.hashfile.tree import Tree
from dvc_data.index import DataIndex, DataIndexEntry, ObjectStorage, view
from dvc_data.index.diff import diff
from dvc_data.fs import DataFileSystem
logging.disable(logging.CRITICAL)
R = random.Random(int(sys.argv[1]))
def mk(root, tree):
    shutil.rmtree(root, ignore_errors=True); os.makedirs(root)
    for rel, data in tree.items():
        p = os.path.join(root, rel); os.makedirs(os.path.dirname(p), exist_ok=True); open(p,"wb").write(data)
NAMES=["a","b","c"]
def gen(depth=0):
    t = {}
    for n in NAMES:
        r = R.random()
        if r < 0.3: continue
        if depth < 2 and r < 0.55:
            for k, v in gen(depth+1).items(): t[n+"/"+k] = v
        else: t[n] = R.choice([b"", b"A", b"B", b"C"])
    return t
shutil.rmtree("cache", ignore_errors=True)
odb = get_odb(localfs, os.path.abspath("cache"))
def stage(tree):
    mk("src", tree); st, meta, obj = build(odb, os.path.abspath("src"), localfs, "md5"); transfer(st, odb, {obj.hash_info}, shallow=False); return obj
def proj(e): return None if e is None else (e.meta.isdir if e.meta else None, e.hash_info.value if e.hash_info else None)
bad=0
for trial in range(120):
    trees=[]
    for _ in range(R.randint(1,2)):
        t=gen()
        while not t: t=gen()
        trees.append((t, stage(t)))
    sqlite = R.random()<0.4
    def make():
        if sqlite:
            p="i%d.db"%R.randrange(10**9); idx=DataIndex.open(p)
        else: idx=DataIndex()
        for i,(t,o) in enumerate(trees):
            k=("top%d"%i,) if i==0 else ("nest","top%d"%i)
            idx[k]=DataIndexEntry(key=k, meta=Meta(isdir=True), hash_info=o.hash_info)
        idx[("f",)]=DataIndexEntry(key=("f",), meta=Meta(), hash_info=[hi for _,_,hi in trees[0][1]][0])
        idx.storage_map.add_cache(ObjectStorage((), odb))
        return idx
    lazy=make(); eager=make(); eager.load()
    allkeys=[k for k,_ in eager.iteritems()] + [("nope",), ("top0","nope")]
    ops=[]
    for _ in range(R.randint(1,8)):
        ops.append((R.choice(["get","items","ls","info","diff","fsls","fscat","view"]), R.choice(allkeys)))
    def run(idx):
        out=[]
        fs=DataFileSystem(idx)
        for op,k in ops:
            try:
                if op=="get": out.append(proj(idx[k]))
                elif op=="items": out.append(sorted((kk,proj(e)) for kk,e in idx.iteritems(prefix=k)))
                elif op=="ls": out.append(sorted(idx.ls(k, detail=False)))
                elif op=="info": i=idx.info(k); out.append((i["type"], proj(i["entry"])))
                elif op=="diff": out.append(sorted((c.typ,c.key) for c in diff(idx, eager, hash_only=True)))
                elif op=="fsls": out.append(sorted(fs.ls("/"+"/".join(k), detail=False)))
                elif op=="fscat": out.append(fs.cat("/"+"/".join(k)))
                elif op=="view":
                    v=view(idx, lambda kk: kk[:len(k)]==k[:len(kk)])
                    out.append(sorted((kk,proj(e)) for kk,e in v.iteritems()))
            except Exception as e: out.append(type(e).__name__)
        return out
    a=run(lazy); b=run(eager)
    if a!=b:
        bad+=1
        for (op,k),x,y in zip(ops,a,b):
            if x!=y: print("DIFF", "sqlite" if sqlite else "mem", op,k,"\n lazy ",x,"\n eager",y); break
    for i in (lazy,eager): i.close()
print("bad",bad)
