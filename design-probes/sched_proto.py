import os, sys, logging, shutil, hashlib, threading, random, time
os.makedirs("/tmp/exp", exist_ok=True); os.chdir("/tmp/exp")
from dvc_objects.fs.local import LocalFileSystem, localfs
from dvc_data.hashfile.db.local import LocalHashFileDB
from dvc_data.hashfile.build import build
from dvc_data.hashfile.transfer import transfer
from dvc_data.hashfile.state import State
logging.disable(logging.CRITICAL)
MUT = {"os.rename","os.chmod","os.remove","os.mkdir","os.rmdir","os.link","os.symlink","shutil.copyfile"}
class Sched:
    def __init__(self, schedule):
        self.cv = threading.Condition(); self.waiting = {}; self.schedule = list(schedule); self.active = set(); self.log = []; self.on = False
    def register(self, tid): 
        with self.cv: self.active.add(tid)
    def finish(self, tid):
        with self.cv: self.active.discard(tid); self.cv.notify_all()
    def at_event(self, tid, ev):
        with self.cv:
            self.waiting[tid] = ev; self.cv.notify_all()
            while not self._mine(tid): self.cv.wait(timeout=0.05)
            del self.waiting[tid]; self.log.append((tid, ev))
            if self.schedule: self.schedule.pop(0)
            self.cv.notify_all()
    def _mine(self, tid):
        # all active threads must be waiting (or finished) before anyone proceeds => deterministic
        if any(t not in self.waiting for t in self.active): return False
        if not self.schedule: return tid == min(self.waiting)
        want = self.schedule[0]
        if want not in self.waiting: return tid == min(self.waiting)
        return tid == want
S = None
tl = threading.local()
def hook(ev, args):
    s = S
    if s is None or not s.on: return
    tid = getattr(tl, "tid", None)
    if tid is None: return
    if ev == "open":
        p, mode, flags = args
        if not (isinstance(p, str) and "/tmp/exp/cache" in p and (flags & (os.O_WRONLY|os.O_RDWR|os.O_CREAT))): return
        e = ("open-w", p.replace("/tmp/exp/",""))
    elif ev in MUT:
        a = [str(x) for x in args[:2]]
        if not any("/tmp/exp/cache" in x for x in a): return
        e = (ev,) + tuple(x.replace("/tmp/exp/","") for x in a)
    else: return
    s.at_event(tid, e)
sys.addaudithook(hook)
def writer(tid, root, st):
    tl.tid = tid
    try:
        odb = LocalHashFileDB(LocalFileSystem(), os.path.abspath("cache"), state=st)
        staging, meta, obj = build(odb, os.path.abspath(root), localfs, "md5")
        transfer(staging, odb, {obj.hash_info}, shallow=False)
        res[tid] = obj.oid
    except Exception as e:
        res[tid] = repr(e)
    finally:
        S.finish(tid)
R = random.Random(1)
for trial in range(5):
    for d in ("cache","st","w0","w1","w2"): shutil.rmtree(d, ignore_errors=True)
    for i in range(3):
        os.makedirs(f"w{i}/d"); open(f"w{i}/a","wb").write(b"shared"); open(f"w{i}/d/b","wb").write(b"also"); open(f"w{i}/u","wb").write(b"uniq%d"%i)
    st = State(root_dir=os.getcwd(), tmp_dir=os.path.abspath("st"))
    res = {}
    S = Sched([R.randrange(3) for _ in range(200)])
    ths = [threading.Thread(target=writer, args=(i, f"w{i}", st)) for i in range(3)]
    for i in range(3): S.register(i)
    S.on = True
    t0=time.time()
    for t in ths: t.start()
    for t in ths: t.join()
    S.on = False
    # audit
    odb = LocalHashFileDB(localfs, os.path.abspath("cache"))
    bad = [o for o in odb.all() if hashlib.md5(open(odb.oid_to_path(o),"rb").read()).hexdigest() != o.split(".")[0]]
    print("trial", trial, "events", len(S.log), "time %.2f"%(time.time()-t0), "res", {k: v[:8] for k,v in res.items()}, "objects", len(list(odb.all())), "bad", bad, "first sched", [t for t,_ in S.log[:20]])
    st.close()
