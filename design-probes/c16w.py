import os, sys, logging, json
root, wid = sys.argv[1], int(sys.argv[2])
os.chdir(root)
from dvc_objects.fs.local import localfs
from dvc_data.hashfile.db.local import LocalHashFileDB
from dvc_data.hashfile.state import State
from dvc_data.hashfile.build import build
from dvc_data.hashfile.transfer import transfer
logging.disable(logging.CRITICAL)
st = State(root_dir=root, tmp_dir=os.path.join(root,"st"))
odb = LocalHashFileDB(localfs, os.path.join(root,"cache"), state=st)
out=[]
for rnd in range(3):
    staging, meta, obj = build(odb, os.path.join(root,"w%d"%wid), localfs, "md5")
    res = transfer(staging, odb, {obj.hash_info}, shallow=False)
    out.append((obj.oid, len(res.failed)))
st.close()
print(json.dumps(out))
