import os, logging, shutil, hashlib, random, json
os.makedirs("/tmp/exp", exist_ok=True); os.chdir("/tmp/exp")
from dvc_objects.fs.local import localfs
from dvc_data.hashfile.db.local import LocalHashFileDB
from dvc_data.hashfile import build as bmod
from dvc_data.hashfile.build import build
from dvc_data.hashfile.state import State
from dvc_data.hashfile.tree import Tree
from dvc_data.hashfile.hash_info import HashInfo
from dvc_data.hashfile.meta import Meta
logging.disable(logging.CRITICAL)
R=random.Random(9)
def mk(root, tree):
    shutil.rmtree(root, ignore_errors=True); os.makedirs(root)
    items=list(tree.items()); R.shuffle(items)
    for rel, data in items:
        p = os.path.join(root, rel); os.makedirs(os.path.dirname(p), exist_ok=True); open(p,"wb").write(data)
def gen(depth=0):
    t={}
    for n in ["a","b","c","é","a-b","a b"]:
        r=R.random()
        if r<0.4: continue
        if depth<2 and r<0.6:
            for k,v in gen(depth+1).items(): t[n+"/"+k]=v
        else: t[n]=os.urandom(R.choice([0,1,5,20,40]))
    return t
orig_defaults = bmod._build_files.__defaults__
bad=0
for trial in range(60):
    t=gen()
    while not t: t=gen()
    mk("src", t)
    want_list=sorted(({"md5":hashlib.md5(v).hexdigest(),"relpath":k} for k,v in t.items()), key=lambda d:d["relpath"])
    want=hashlib.md5(json.dumps(want_list, sort_keys=True).encode()).hexdigest()+".dir"
    oids=set()
    for jobs in (None,1,2,4):
        for thr in (2**20, 10, 0):
            for warm in (False, True):
                shutil.rmtree("st", ignore_errors=True); shutil.rmtree("cache", ignore_errors=True)
                st=State(root_dir=os.getcwd(), tmp_dir=os.path.abspath("st"))
                odb=LocalHashFileDB(localfs, os.path.abspath("cache"), state=st)
                d=list(orig_defaults); d[-1]=thr; bmod._build_files.__defaults__=tuple(d)
                if warm: build(odb, os.path.abspath("src"), localfs, "md5", checksum_jobs=jobs)
                _,_,obj=build(odb, os.path.abspath("src"), localfs, "md5", checksum_jobs=jobs)
                oids.add(obj.oid); st.close()
    # permutation invariance of Tree itself and subtree
    entries=[(tuple(k.split("/")), Meta(size=len(v)), HashInfo("md5", hashlib.md5(v).hexdigest())) for k,v in t.items()]
    for _ in range(3):
        R.shuffle(entries); tr=Tree()
        for k,m,h in entries: tr.add(k,m,h)
        tr.digest(); oids.add(tr.oid)
        tr2=Tree.from_list(json.loads(tr.as_bytes())); tr2.digest(); oids.add(tr2.oid)
    if oids!={want}: bad+=1; print("BAD", oids, want)
    # subtree
    for pre in {tuple(k.split("/")[:i]) for k in t for i in range(1,len(k.split("/")))}:
        sub={"/".join(k.split("/")[len(pre):]):v for k,v in t.items() if tuple(k.split("/")[:len(pre)])==pre}
        wl=sorted(({"md5":hashlib.md5(v).hexdigest(),"relpath":k} for k,v in sub.items()), key=lambda d:d["relpath"])
        w=hashlib.md5(json.dumps(wl, sort_keys=True).encode()).hexdigest()+".dir"
        got=tr.get_obj(None, pre).oid
        if got!=w: bad+=1; print("SUB", pre, got, w)
bmod._build_files.__defaults__=orig_defaults
print("bad",bad)
