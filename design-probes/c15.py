import os, logging, shutil, hashlib, stat
os.makedirs("/tmp/exp", exist_ok=True); os.chdir("/tmp/exp")
from dvc_objects.fs.local import localfs
from dvc_data.hashfile.db.local import LocalHashFileDB
from dvc_data.hashfile.state import State
from dvc_data.hashfile.hash_info import HashInfo
from dvc_data.index import DataIndex, ObjectStorage, build as ibuild, md5 as imd5, save as isave
logging.disable(logging.CRITICAL)
for d in ("cache","st","ws"): shutil.rmtree(d, ignore_errors=True)
os.makedirs("ws/d"); open("ws/d/a","wb").write(b"AAA"); open("ws/b","wb").write(b"BBB")
st = State(root_dir=os.getcwd(), tmp_dir=os.path.abspath("st"))
odb = LocalHashFileDB(localfs, os.path.abspath("cache"), state=st)
oidA = hashlib.md5(b"AAA").hexdigest()
# simulate the crash state: killed between reflink's open(O_CREAT) at the final name and its cleanup
p = odb.oid_to_path(oidA); os.makedirs(os.path.dirname(p)); open(p,"wb").close()
print("after simulated crash:", oct(stat.S_IMODE(os.stat(p).st_mode)), os.path.getsize(p))
# re-run the interrupted operation: index save
idx = imd5(ibuild(os.path.abspath("ws"), localfs))
idx.storage_map.add_cache(ObjectStorage((), odb))
n = isave(idx)
print("save transferred", n)
for o in sorted(odb.all()):
    q = odb.oid_to_path(o); b = open(q,"rb").read()
    ok = hashlib.md5(b).hexdigest() == o.split(".")[0]
    print(o[:8], "mode", oct(stat.S_IMODE(os.stat(q).st_mode)), "len", len(b), "MATCHES" if ok else "MISMATCH")
_, hi = st.get(p, localfs)
print("state vouches for", p[-12:], "->", hi)
try:
    odb.check(oidA); print("check: ACCEPTED (trusted by mode)")
except Exception as e: print("check:", type(e).__name__)
print("oids_exist:", odb.oids_exist([oidA]))
